SPECIFICATION PSpec
CONSTANTS
  N = 4
  Facts = {x}
  ExitFact = x
  MaxOut = 2
  Runs = 1
  FirstVisitCounts = TRUE
  WaitForVisited = TRUE
  UnvisitedIsTop = FALSE
  RootsAreEntries = TRUE
  Loop = TRUE
CONSTRAINT KillFree
INVARIANTS SweepBound Consistent EdgesStopAtExits RoundsBound
CHECK_DEADLOCK FALSE
