---------------------------- MODULE Gen_DeadCode ----------------------------
(* spec -> impl generator of unreachable code (C06, C12): behind `j end`, K   *)
(* labelled statements, each a jump or a conditional branch to any of the K   *)
(* labels, a jump with a link register other than ra (it writes a register    *)
(* and has two successors), an instruction that makes a value known, or one   *)
(* that makes it unknown - every arrangement (exhaustive for the K of the configuration).   *)
(* No statement of the region has a predecessor that the analyses reach from  *)
(* the program entry: these are the graphs on which the value analysis has to *)
(* pick its own starting points (the root rule of PassLoop.tla), and the ones *)
(* on which PassLoop.tla at N = 4 found facts that flip for ever.  With       *)
(* Reach = TRUE the region is also entered from live code (beqz a2, B1).      *)
EXTENDS Integers, Sequences, TLC, Json
CONSTANTS K, Reach
VARIABLES phase, blocks
vars == <<phase, blocks>>
S(n) == ToString(n)
\* "l": a jump that also writes a register and falls through (jal t1, B): a node with a value and two successors
Kinds == ({"j", "b", "l"} \X (1..K)) \cup {<<"g", 0>>, <<"p", 0>>}
Stmt(x) == CASE x[1] = "j" -> "    j B" \o S(x[2]) \o "\n"
             [] x[1] = "b" -> "    beq a0, a1, B" \o S(x[2]) \o "\n"
             [] x[1] = "l" -> "    jal t1, B" \o S(x[2]) \o "\n"
             [] x[1] = "g" -> "    li t0, 5\n"
             [] OTHER      -> "    addi t0, t0, 1\n"
RECURSIVE Region(_, _)
Region(bs, i) == IF i > K THEN "" ELSE "B" \o S(i) \o ":\n" \o Stmt(bs[i]) \o Region(bs, i + 1)
Prog(bs) == "main:\n" \o (IF Reach THEN "    beqz a2, B1\n" ELSE "") \o "    j end\n" \o Region(bs, 1)
            \o "end:\n    li a7, 10\n    ecall\n"
Init == phase = "start" /\ blocks = <<>>
\* one statement at a time (the set of all K-tuples is too large for TLC to build at K = 5)
Pick == /\ phase = "start" /\ Len(blocks) < K
        /\ \E x \in Kinds : blocks' = Append(blocks, x)
        /\ UNCHANGED phase
Done == /\ phase = "start" /\ Len(blocks) = K
        /\ phase' = "emit" /\ UNCHANGED blocks
Emit == /\ phase = "emit"
        /\ PrintT("CASE " \o ToJson([text |-> Prog(blocks), k |-> K, reach |-> Reach]))
        /\ phase' = "done" /\ UNCHANGED blocks
Next == Pick \/ Done \/ Emit
Spec == Init /\ [][Next]_vars
=============================================================================
