---------------------------- MODULE Gen_IncGraph ----------------------------
(* spec -> impl generator of include graphs (C06): every graph over three     *)
(* files a.s, b.s, c.s (each file includes any subset of {a, b, c, missing}, *)
(* self loops and cycles included), 4096 graphs.                             *)
EXTENDS Integers, Sequences, FiniteSets, TLC, Json
VARIABLES phase, g
vars == <<phase, g>>
Files == {"a.s", "b.s", "c.s"}
Targets == Files \cup {"missing.s"}
Init == phase = "start" /\ g = [f \in Files |-> {}]
Pick == /\ phase = "start"
        /\ \E h \in [Files -> SUBSET Targets] : g' = h
        /\ phase' = "emit"
RECURSIVE SetSeq(_)
SetSeq(S) == IF S = {} THEN <<>> ELSE LET v == CHOOSE w \in S : TRUE IN <<v>> \o SetSeq(S \ {v})
Emit == /\ phase = "emit"
        /\ PrintT("CASE " \o ToJson([a |-> SetSeq(g["a.s"]), b |-> SetSeq(g["b.s"]), c |-> SetSeq(g["c.s"])]))
        /\ phase' = "done" /\ g' = g
Next == Pick \/ Emit
Spec == Init /\ [][Next]_vars
=============================================================================
