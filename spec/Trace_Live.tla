----------------------------- MODULE Trace_Live -----------------------------
(* impl -> spec (C02, static part): the live sets, the inferred argument and *)
(* return registers and the unused-value warnings recorded from the real     *)
(* analysis equal the least solution of the documented equations             *)
(* (Dataflow!LiveLFP): a missing register is a coverage defect, an extra one *)
(* something "the equations do not force".                                   *)
EXTENDS Dataflow, Json, IOUtils
Rec == ndJsonDeserialize(IOEnv.TRACE)
VARIABLES l
vars == <<l>>

RECURSIVE Cat(_, _, _)
Cat(f(_), n, i) == IF i > n THEN <<>> ELSE f(i) \o Cat(f, n, i + 1)

Judge(e) ==
  IF e.ev # "obs" \/ ~e.cfgok THEN <<>>
  ELSE
  LET cfg == e.cfg
      ref == LiveLFP(cfg)
      node(i) ==
        LET oi == SeqSet(cfg.nodes[i].live_in) \ {0} oo == SeqSet(cfg.nodes[i].live_out) \ {0}
            k == Kind(cfg.nodes[i].node)
        IN (IF ref.li[i] \ oi # {} THEN << "C02:static:live-in:missing:" \o k >> ELSE <<>>)
           \o (IF oi \ ref.li[i] # {} THEN << "C02:static:live-in:extra:" \o k >> ELSE <<>>)
           \o (IF ref.lo[i] \ oo # {} THEN << "C02:static:live-out:missing:" \o k >> ELSE <<>>)
           \o (IF oo \ ref.lo[i] # {} THEN << "C02:static:live-out:extra:" \o k >> ELSE <<>>)
      row(k) ==
        LET f == cfg.funcs[k] IN
        (IF SeqSet(f.args) # (ref.lo[f.entry] \cap ArgRegs) THEN << "C02:static:function-arguments" >> ELSE <<>>)
        \o (IF SeqSet(f.rets) # (ref.li[f.exit] \cap ArgRegs) THEN << "C02:static:function-returns" >> ELSE <<>>)
      \* an unused-value warning on the destination of node i although the reference says it is live after i
      dead(j) ==
        IF e.lints[j].code # "dead-assignment" THEN <<>>
        ELSE LET cands == { i \in 1..NN(cfg) :
                              LET n == cfg.nodes[i].node IN
                              n.file = e.lints[j].file /\ n.r0 <= e.lints[j].r0 /\ e.lints[j].r1 <= n.r1
                              /\ n.k \notin {"FuncEntry", "ProgramEntry"} }
             IN IF \E i \in cands : ArchWrites(Norm(cfg.nodes[i].node)) \cap ref.lo[i] # {}
                  THEN << "C02:static:unused-value-warning-for-live-register" >> ELSE <<>>
  IN Cat(node, NN(cfg), 1) \o Cat(row, Len(cfg.funcs), 1) \o Cat(dead, Len(e.lints), 1)

RECURSIVE Dedup(_, _, _)
Dedup(s, i, seen) == IF i > Len(s) THEN <<>>
                     ELSE IF s[i] \in seen THEN Dedup(s, i + 1, seen) ELSE <<s[i]>> \o Dedup(s, i + 1, seen \cup {s[i]})
RECURSIVE Report(_, _, _)
Report(e, bad, i) ==
  IF i > Len(bad) THEN TRUE
  ELSE PrintT("VERDICT " \o ToJson([id |-> e.id, key |-> bad[i]])) /\ Report(e, bad, i + 1)

Init == l = 1
Next == /\ l <= Len(Rec)
        /\ Report(Rec[l], Dedup(Judge(Rec[l]), 1, {}), 1)
        /\ l' = l + 1
Spec == Init /\ [][Next]_vars
Accepted == IF TLCGet("stats").diameter = Len(Rec) + 1 THEN TRUE
            ELSE PrintT("TRACE-NOT-CONSUMED") /\ FALSE
=============================================================================
