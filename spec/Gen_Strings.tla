----------------------------- MODULE Gen_Strings -----------------------------
(* spec -> impl generator of adversarial inputs (C06): every string over an   *)
(* alphabet of lexer-relevant symbols up to length MaxLen, as sequences of    *)
(* alphabet indices (the driver maps index -> character; the alphabet holds   *)
(* NUL, CR, multi-byte code points that TLA+ strings cannot carry).           *)
EXTENDS Integers, Sequences, TLC, Json
CONSTANTS MaxLen, NSym
VARIABLES s, done
vars == <<s, done>>
Init == s = <<>> /\ done = FALSE
Extend == ~done /\ Len(s) < MaxLen /\ \E c \in 1..NSym : s' = Append(s, c) /\ done' = FALSE
Stop == ~done /\ Len(s) = MaxLen /\ done' = TRUE /\ s' = s /\ PrintT("CASE " \o ToJson([s |-> s]))
\* only full-length strings are printed; every prefix is covered because the alphabet contains the empty symbol (index 1)
Next == Extend \/ Stop
Spec == Init /\ [][Next]_vars
=============================================================================
