----------------------------- MODULE Gen_Branch -----------------------------
(* spec -> impl generator (C03, C02, C08): every conditional-branch mnemonic  *)
(* (base and pseudo) x every operand pattern with the zero register, in two  *)
(* program shapes (forward skip, backward loop).  Exhaustive.                *)
EXTENDS Integers, Sequences, TLC, Json
VARIABLES phase, op, pat, shape
vars == <<phase, op, pat, shape>>
Ops2 == {"beq", "bne", "blt", "bge", "bltu", "bgeu", "bgt", "ble", "bgtu", "bleu"}
Ops1 == {"beqz", "bnez", "blez", "bgez", "bltz", "bgtz"}
Pats == {"zero,zero", "zero,a1", "a0,zero", "a0,a1", "a0,a0"}
Operands(o, p) == IF o \in Ops1 THEN (IF p \in {"zero,zero", "zero,a1"} THEN "zero" ELSE "a0") ELSE p
Prog(o, p, sh) ==
  IF sh = "skip"
    THEN "main:\n    " \o o \o " " \o Operands(o, p) \o ", over\n    addi a2, a2, 1\n    addi a2, a2, 2\nover:\n    mv a0, a2\n    li a7, 10\n    ecall\n"
    ELSE "main:\n    li a2, 0\nagain:\n    addi a2, a2, 1\n    addi a0, a0, -1\n    " \o o \o " " \o Operands(o, p) \o ", again\n    mv a0, a2\n    li a7, 10\n    ecall\n"
Init == phase = "start" /\ op = "" /\ pat = "" /\ shape = ""
Pick == /\ phase = "start"
        /\ \E o \in Ops2 \cup Ops1, p \in Pats, sh \in {"skip", "loop"} : op' = o /\ pat' = p /\ shape' = sh
        /\ phase' = "emit"
Emit == /\ phase = "emit"
        /\ PrintT("CASE " \o ToJson([text |-> Prog(op, pat, shape), op |-> op, pat |-> pat, shape |-> shape]))
        /\ phase' = "done" /\ UNCHANGED <<op, pat, shape>>
Next == Pick \/ Emit
Spec == Init /\ [][Next]_vars
=============================================================================
