------------------------------ MODULE Gen_Slice ------------------------------
(* spec -> impl generator (C01, C02, C03; thorough tier in full, quick tier a  *)
(* rotating fraction): EVERY program of exactly N instructions over a small  *)
(* alphabet ("slice") that exercises one group of rules of the value analysis  *)
(* together - stack pointer and spills, arithmetic on tracked values, calls    *)
(* and what they clobber, environment calls, memory through other bases.       *)
(* Small-scope exhaustiveness: every interaction of two or three rules of a    *)
(* group occurs in some program.                                               *)
EXTENDS Integers, Sequences, TLC, Json
CONSTANT N
VARIABLES phase, slice, ins
vars == <<phase, slice, ins>>

Slices == [
  stack |-> << "addi sp, sp, -8", "addi sp, sp, 8", "sw s0, 0(sp)", "sw t0, 4(sp)", "lw s0, 0(sp)", "lw t0, 4(sp)", "li s0, 3",
               "li t0, 7", "sb t0, 1(sp)", "mv s1, sp", "mv sp, s1", "sw zero, 0(sp)" >>,
  arith |-> << "li t0, 7", "li t1, -1", "mv t1, t0", "add t0, t0, t1", "sub t1, t0, t1", "addi t0, t0, -1", "slli t0, t0, 31",
               "mv t0, sp", "addi t1, sp, 4", "sub t1, t1, sp", "neg t1, t0", "and t1, t0, zero" >>,
  calls |-> << "li t0, 7", "li s0, 3", "mv a0, t0", "mv s0, a0", "call F", "sw ra, -4(sp)", "lw ra, -4(sp)", "sw t0, -8(sp)",
               "lw t1, -8(sp)", "addi sp, sp, -8", "addi sp, sp, 8", "mv t1, a0" >>,
  ecall |-> << "li a7, 1", "li a7, 5", "li a7, 9", "li a7, 42", "ecall", "mv a7, a0", "li a0, 2", "mv t0, a0", "mv a0, t0",
               "li a1, 3", "sw a0, -4(sp)", "lw a7, -4(sp)" >>,
  mem   |-> << "la t1, D1", "lw t0, 0(t1)", "sw t0, 0(t1)", "sw t0, -4(sp)", "lw t0, -4(sp)", "mv t1, sp", "sw t0, -4(t1)",
               "li t0, 7", "addi t1, t1, 4", "sh t0, -4(sp)", "lb t0, -4(sp)", "mv s0, t1" >> ]
Names == DOMAIN Slices
Callee == "F:\n    addi sp, sp, -8\n    sw s0, 0(sp)\n    li s0, 3\n    add a0, a0, s0\n    lw s0, 0(sp)\n    addi sp, sp, 8\n    ret\n"

RECURSIVE Render(_, _, _)
Render(al, is, i) == IF i > Len(is) THEN "" ELSE "    " \o al[is[i]] \o "\n" \o Render(al, is, i + 1)
\* the sequence is the body of a function G called from main: saved registers have a known entry value there
Text(sl, is) ==
  ".data\nD1: .word 7\n.text\nmain:\n    li a0, 0\n    li t0, 3\n    call G\n    li a7, 10\n    ecall\nG:\n"
  \o Render(Slices[sl], is, 1) \o "    ret\n" \o Callee

Init == phase = "start" /\ slice = "" /\ ins = <<>>
Pick == phase = "start" /\ \E s \in Names : slice' = s /\ phase' = "ins" /\ UNCHANGED ins
Add  == /\ phase = "ins" /\ Len(ins) < N
        /\ \E a \in 1..Len(Slices[slice]) : ins' = Append(ins, a)
        /\ UNCHANGED <<phase, slice>>
Emit == /\ phase = "ins" /\ Len(ins) = N
        /\ PrintT("CASE " \o ToJson([text |-> Text(slice, ins), slice |-> slice]))
        /\ phase' = "done" /\ UNCHANGED <<slice, ins>>
Next == Pick \/ Add \/ Emit
Spec == Init /\ [][Next]_vars
=============================================================================
