CONSTANTS MaxK = 4
          NP = 9
INIT Init
NEXT Next
CHECK_DEADLOCK FALSE
