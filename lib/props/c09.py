"""C09 — every reported location designates exactly the text it is about."""
import os
from vlib import *
import corpus

PID = "C09"


def run(tier, replay=None):
    out = Outcome(PID, tier)
    wd = os.path.join(WORK, PID)
    rvh = build_harness()
    cases, gres = tlc_generate("Gen_Layout", coverage=True)
    out.add_tlc(gres)
    total = len(cases)
    if tier == "quick":
        k = seed() % 8
        cases = [c for i, c in enumerate(cases) if i % 8 == k]
    hc = []
    meta = []
    for n, c in enumerate(cases):
        if n % 5 == 0:        # every fifth layout ends without a final newline (spans unchanged)
            c = dict(c, text=c["text"].rstrip("\n"))
        if n % 4 == 1:        # every fourth layout has CR LF line endings: every offset moves by the number of line breaks before it
            t = c["text"]
            sh = lambda o: o + t[:o].count("\n")
            c = dict(c, text=t.replace("\n", "\r\n"),
                     spans=[dict(sp, s=sh(sp["s"]), e=sh(sp["e"]), ops=[dict(o, a=sh(o["a"]), b=sh(o["b"])) for o in sp["ops"]])
                            for sp in c["spans"]])
        if c["inc"]:
            files = {"main.s": '.include "inc.s"\n', "inc.s": c["text"]}
            g = 2
        else:
            files = {"main.s": c["text"]}
            g = 1
        hc.append({"mode": "observe", "files": files, "base": "main.s"})
        meta.append({"spans": c["spans"], "gfile": g, "free": False})
    # impl -> spec on programs the model did not choose (no spans: consistency only)
    for name, text in corpus.all_programs().items():
        for variant in (text, "\n" + text, "# header\n\t" + text.replace("\n", "\n\t")):
            hc.append({"mode": "observe", "files": {"main.s": variant}, "base": "main.s"})
            meta.append({"spans": [], "gfile": 1, "free": True})
    if replay:
        w = json.load(open(replay))["witness"]
        hc = [w["case"]]
        meta = [w["meta"]]
    for i, h in enumerate(hc):
        h["id"] = i + 1
        h["want"] = ["files", "toks", "nodes", "errors", "lints"]
    tp, evs = run_harness(rvh, hc, wd, "pos")
    for e, m in zip(evs, meta):
        e["case"] = m
        e.setdefault("lints", [])
        e.setdefault("cfgerr", {})
        e.setdefault("cfgok", False)
    write_ndjson(tp, evs)
    v, acc, res = tlc_validate("Trace_Pos", tp, heap="8g", timeout=3000)
    out.add_tlc(res)
    if not acc:
        raise ToolError("position trace not consumed")
    for x in v:
        x["case"] = hc[x["id"] - 1]
        x["meta"] = meta[x["id"] - 1]
    out.add_verdicts(v)
    ntok = sum(len(t) for e in evs for t in e.get("toks", []))
    nloc = ntok + sum(len(e.get("nodes", [])) + len(e.get("lints", [])) + len(e.get("errors", [])) for e in evs)
    out.cov["traces_validated_against_impl"] = len(evs)
    out.sample({"text": cases[0]["text"], "spans": cases[0]["spans"][:2]})
    out.sample({"text": cases[len(cases) // 2]["text"], "inc": cases[len(cases) // 2]["inc"]})
    out.assumptions += [
        "range ends are inclusive (the CLI prints start..end columns and draws end-start+1 carets)",
        "a label definition's range includes its colon",
        "string/char tokens are checked for consistency only (escapes make value and source differ)",
        "every fourth layout uses CR LF line endings (offsets shifted accordingly by the driver)",
    ]
    return out.finish(extra_cov={
        "layouts_total": total, "layouts_run": len(cases), "locations_checked": nloc, "tokens_checked": ntok,
        "exhaustive": tier == "thorough",
        "evaluations": nloc, "distinct_nontrivial": len(cases),
        "rule": "Gen_Layout: 12 statement templates^2 x 3 leading-blank x 4 indent x 3 comment x same-line x included (quick: every 8th case, rotating with seed; thorough: all) + repository/corpus programs in 3 layouts; every token, node, operand token, parse error, cfg error and lint location judged",
    })
