CONSTANTS K = 3
  Reach = TRUE
INIT Init
NEXT Next
CHECK_DEADLOCK FALSE
