main:
    mv s1, a0
    li a7, 10
    ecall
K2:
    li a7, 10
    ecall
    j K1
L1:
    j K2
K1:
    j L1
L2:
    ret
