----------------------------- MODULE Gen_Blocks -----------------------------
(* spec -> impl generator of block layouts (C06, C12, C01-C03): a cycle of    *)
(* K basic blocks B1 -> B2 -> ... -> BK -> B1 (or -> exit) written to the    *)
(* file in every order, each block with one or two instructions before its   *)
(* jump, entered from main by a jump or by fall-through.  Exhaustive for     *)
(* K <= MaxK.  Loops whose blocks appear in the reverse of execution order   *)
(* are what fixed-point iterations in source order handle worst.             *)
EXTENDS Integers, Sequences, FiniteSets, TLC, Json
CONSTANT MaxK
VARIABLES phase, k, perm, sizes, entry, closing
vars == <<phase, k, perm, sizes, entry, closing>>

Perms(n) == { p \in [1..n -> 1..n] : \A i, j \in 1..n : i # j => p[i] # p[j] }
S(n) == ToString(n)
Body(b, sz) == IF sz = 1 THEN "    addi t0, t0, " \o S(b) \o "\n"
               ELSE IF sz = 2 THEN "    addi t0, t0, " \o S(b) \o "\n    mv s" \o S(b % 3) \o ", t0\n"
               ELSE "    li a" \o S(b) \o ", " \o S(b) \o "\n    add t" \o S(b % 3) \o ", t0, a" \o S(b) \o "\n"
\* block b jumps to b+1; the last block closes the cycle conditionally (closing = "loop") or always ("spin") or exits
Jump(b, n, cl) ==
  IF b < n THEN "    j B" \o S(b + 1) \o "\n"
  ELSE CASE cl = "loop" -> "    bnez a0, B1\n    j done\n"
         [] cl = "spin" -> "    j B1\n"
         [] OTHER       -> "    j done\n"
RECURSIVE Layout(_, _, _, _, _)
Layout(p, i, n, sz, cl) ==
  IF i > n THEN ""
  ELSE "B" \o S(p[i]) \o ":\n" \o Body(p[i], sz[p[i]]) \o Jump(p[i], n, cl) \o Layout(p, i + 1, n, sz, cl)
Prog(n, p, sz, en, cl) ==
  "main:\n    li t0, 0\n" \o (IF en = "jump" THEN "    j B1\n" ELSE "")
  \o Layout(p, 1, n, sz, cl) \o "done:\n    mv a0, t0\n    li a7, 10\n    ecall\n"

Init == phase = "start" /\ k = 0 /\ perm = <<>> /\ sizes = <<>> /\ entry = "" /\ closing = ""
Pick == /\ phase = "start"
        /\ \E n \in 2..MaxK :
           \E p \in Perms(n), sz \in [1..n -> 1..3], en \in {"jump", "fall"}, cl \in {"loop", "spin", "exit"} :
             /\ (en = "fall" => p[1] = 1)              \* falling through enters the first block written
             /\ k' = n /\ perm' = p /\ sizes' = sz /\ entry' = en /\ closing' = cl
        /\ phase' = "emit"
Emit == /\ phase = "emit"
        /\ PrintT("CASE " \o ToJson([text |-> Prog(k, perm, sizes, entry, closing), k |-> k, perm |-> perm, entry |-> entry, closing |-> closing]))
        /\ phase' = "done" /\ UNCHANGED <<k, perm, sizes, entry, closing>>
Next == Pick \/ Emit
Spec == Init /\ [][Next]_vars
=============================================================================
