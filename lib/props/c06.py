"""C06 — linting any input terminates without crashing (exploration over a structured input model)."""
import os
import subprocess
import tempfile
from vlib import *
import corpus

PID = "C06"
# alphabet of lexer-relevant symbols; index 1 is the empty string so that shorter strings are covered
ALPHABET = ["", '"', "'", "\\", "u", "0", "a", "#", ".", ":", "(", ")", "-", ",", " ", "\t", "\r", "\n", "\0",
            "é", "€", "😀", "x", "1", "@", "+", "\u3000", "\u00a0"]   # the last two: multi-byte blanks (char::is_whitespace)


def mutations(text, r, n):
    """token-level and line-level mutations of a valid program"""
    out = []
    lines = text.split("\n")
    toks = text.replace("\n", " \n ").split(" ")
    for _ in range(n):
        k = r.randrange(8)
        if k == 0 and len(lines) > 1:
            i = r.randrange(len(lines)); ls = lines[:i] + lines[i + 1:]; out.append("\n".join(ls))
        elif k == 1:
            i = r.randrange(len(lines)); ls = lines[:i] + [lines[i]] + lines[i:]; out.append("\n".join(ls))
        elif k == 2 and len(lines) > 1:
            i, j = r.randrange(len(lines)), r.randrange(len(lines)); ls = list(lines); ls[i], ls[j] = ls[j], ls[i]; out.append("\n".join(ls))
        elif k == 3:
            i = r.randrange(len(toks)); ts = toks[:i] + toks[i + 1:]; out.append(" ".join(ts))
        elif k == 4:
            i, j = r.randrange(len(toks)), r.randrange(len(toks)); ts = list(toks); ts[i], ts[j] = ts[j], ts[i]; out.append(" ".join(ts))
        elif k == 5:
            i = r.randrange(len(toks)); ts = list(toks)
            ts[i] = r.choice(["(", ")", "'", '"', ":", "-", "0x", "2147483648", "-2147483649", "sp", "zero", ".data", ".include",
                              ".macro", ".endmacro", "\\", "ra:", "#", "é", "1e9", "0b", "''", '""', "'\\u12'", ".word"])
            out.append(" ".join(ts))
        elif k == 6:
            i = r.randrange(len(text) + 1); out.append(text[:i])          # truncation at an arbitrary character
        else:
            i = r.randrange(len(text) + 1); out.append(text[:i] + r.choice(ALPHABET[1:]) + text[i:])
    return out


def scaled(n):
    """programs whose size grows with n (for the growth bound)"""
    chain = "main:\n" + "".join(f"    addi t0, t0, {i % 7}\n" for i in range(n)) + "    li a7, 10\n    ecall\n"
    loops = "main:\n" + "".join(f"L{i}:\n    addi t{i % 3}, t{i % 3}, 1\n    bnez t{i % 3}, L{max(i - 1, 0)}\n" for i in range(n)) + "    li a7, 10\n    ecall\n"
    calls = "main:\n" + "".join(f"    call f{i}\n" for i in range(n)) + "    li a7, 10\n    ecall\n" + \
        "".join(f"f{i}:\n    addi sp, sp, -4\n    sw ra, 0(sp)\n    call f{i + 1}\n    lw ra, 0(sp)\n    addi sp, sp, 4\n    ret\n" for i in range(n)) + f"f{n}:\n    ret\n"
    fwd = "main:\n" + "".join(f"    beqz t0, T{n - i}\n" for i in range(n)) + "".join(f"T{i + 1}:\n    addi a0, a0, 1\n" for i in range(n)) + "    li a7, 10\n    ecall\n"
    return {"chain": chain, "loops": loops, "calls": calls, "forward-branches": fwd}


def run(tier, replay=None):
    out = Outcome(PID, tier)
    wd = os.path.join(WORK, PID)
    rvh = build_harness()
    rva = build_cli()
    r = rng("c06")
    cases = []   # (class, harness case)

    def add(cls, **kw):
        cases.append((cls, kw))
    sres = tlc_generate("Gen_Strings", cfg="Gen_Strings" if tier == "quick" else "Gen_Strings4", heap="8g", timeout=3000)
    out.add_tlc(sres[1])
    for c in sres[0]:
        add("string", mode="observe", text="".join(ALPHABET[i - 1] for i in c["s"]), want=["lints", "items"])
    ores = tlc_generate("Gen_Overflow", heap="6g")
    out.add_tlc(ores[1])
    ov = ores[0]
    if tier == "quick":      # the extreme pairs always, the rest rotating with the seed
        ext = {0, -1, 1, 2147483647, -2147483648, -2147483647}
        ov = [c for i, c in enumerate(ov) if (c["x"] in ext and c["y"] in ext) or i % 6 == seed() % 6]
    for c in ov:
        add("overflow:" + c["shape"], mode="observe", text=c["text"], want=["lints"])
    gres = tlc_generate("Gen_IncGraph", heap="6g")
    out.add_tlc(gres[1])
    graphs = gres[0]
    if tier == "quick":
        graphs = [g for i, g in enumerate(graphs) if i % 16 == seed() % 16]
    body = {"a.s": "main:\n    li t0, 1\n", "b.s": "bl:\n    addi t0, t0, 1\n", "c.s": "cl:\n    li a7, 10\n    ecall\n"}
    gfiles = []
    for g in graphs:
        files = {}
        for f, key in (("a.s", "a"), ("b.s", "b"), ("c.s", "c")):
            files[f] = body[f] + "".join(f'.include "{t}"\n' for t in g[key]) + "    nop\n"
        gfiles.append(files)
        if len(gfiles) % 2 == 0:      # every other graph spells its includes ./name
            files = {f: t.replace('.include "', '.include "./') for f, t in files.items()}
            gfiles[-1] = files
        add("include-graph", mode="observe", files=files, base="a.s", want=["lints", "items"])
        add("include-graph-no-cycle-detection", mode="observe", files=files, base="a.s", want=[], no_cycle_detection=True)
    nflow, nval, nmut = (150, 80, 25) if tier == "quick" else (4000, 2000, 400)
    r1 = run_tlc("Gen_Values", cfg="Gen_Values_sim", simulate=nval, depth=30, workers=4, seed_=seed() * 41 + 1)
    r2 = run_tlc("Gen_Flow", cfg="Gen_Flow_sim", simulate=nflow, depth=40, workers=4, seed_=seed() * 43 + 2, heap="6g")
    out.add_tlc(r1)
    out.add_tlc(r2)
    for t in dict.fromkeys([c["text"] for c in r1.tagged("CASE")] + [c["text"] for c in r2.tagged("CASE")]):
        add("generated-program", mode="observe", text=t, want=["lints", "items", "yaml"])
    bres = tlc_generate("Gen_Blocks", cfg="Gen_Blocks" if tier == "quick" else "Gen_Blocks4", heap="6g", timeout=3000)
    out.add_tlc(bres[1])
    for c in bres[0]:
        add("block-layout", mode="observe", text=c["text"], want=["lints"])
    progs = list(corpus.all_programs().values()) + corpus.VALUE_PROGRAMS + corpus.LOOP_PROGRAMS + corpus.ORDER_PROGRAMS
    for p in progs:
        add("corpus", mode="observe", text=p, want=["lints", "items", "yaml"])
        for m in mutations(p, r, nmut):
            add("mutation", mode="observe", text=m, want=["lints", "items"])
    # long runs of one symbol / of a pair of symbols (recursion depth, quadratic scans); judged with a longer watchdog
    reps = []
    nrep1, nrep2 = (30000, 4000) if tier == "quick" else (200000, 20000)
    syms = [a for a in ALPHABET[1:]] + ["li a0, 1\n", "L:\n", ".word 1\n", "call f\n", "# c\n", ".include \"a.s\"\n"]
    for a in syms:
        reps.append(("repeat:1", dict(mode="observe", text=a * (nrep1 // max(1, len(a))), want=[])))
    for a in ALPHABET[1:]:
        for b in ALPHABET[1:]:
            if a != b and (tier == "thorough" or (ALPHABET.index(a) * 31 + ALPHABET.index(b)) % 4 == seed() % 4):
                reps.append(("repeat:2", dict(mode="observe", text=(a + b) * nrep2, want=[])))
    sizes = (20, 40, 80) if tier == "quick" else (50, 100, 200, 400)
    for n in sizes:
        for name, t in scaled(n).items():
            add(f"scaled:{name}", mode="stable", text=t, histories=[[]])
    if replay:
        w = json.load(open(replay))["witness"]
        cases = [(w["class"], w["case"])]
    hc = []
    for i, (cls, kw) in enumerate(cases):
        kw = dict(kw)
        kw["id"] = i + 1
        hc.append(kw)
    tp, hevs = run_harness_par(rvh, hc, wd, "robust", timeout_ms=60000 if replay else 10000, shards=6)
    if not replay:
        rc = [dict(kw, id=len(hc) + i + 1) for i, (cls, kw) in enumerate(reps)]
        tp2, hevs2 = run_harness_par(rvh, rc, wd, "robust-rep", timeout_ms=60000, shards=6)
        cases += reps
        hc += rc
        hevs += hevs2
    evs = []
    growth = {}
    for (cls, kw), e in zip(cases, hevs):
        if e["ev"] == "obs":
            evs.append({"ev": "obs", "id": e["id"], "class": cls})
        elif e["ev"] == "stable":
            run0 = e["runs"][0] if e["runs"] else {"ok": False}
            if run0.get("ok"):
                evs.append({"ev": "stable", "id": e["id"], "class": cls, "n": run0["first"]["n"], "sweeps": run0["sweeps"]})
                growth.setdefault(cls, []).append((run0["first"]["n"], max([s["n"] for s in run0["sweeps"]] or [0])))
            else:
                evs.append({"ev": "obs", "id": e["id"], "class": cls})
        elif e["ev"] == "skipped":
            evs.append({"ev": "skipped", "id": e["id"], "class": cls})
        else:
            evs.append({"ev": e["ev"], "id": e["id"], "class": cls, "loc": e.get("loc", ""), "msg": e.get("msg", "")[:80]})
    # the rva binary: every output mode on a few inputs (+ include graphs on real files)
    modes = [[], ["--compact"], ["--json"], ["--yaml"], ["--debug"], ["--no-color"], ["--all-files"], ["--compact", "--all-files", "--no-color"],
             ["--yaml", "--no-output"], ["--debug", "--json"]]
    cli_inputs = [("corpus", {"main.s": p}) for p in progs[:6 if tier == "quick" else 40]]
    cli_inputs += [("string", {"main.s": "".join(ALPHABET[i - 1] for i in c["s"])}) for c in sres[0][:: max(1, len(sres[0]) // (40 if tier == "quick" else 400))]]
    cli_inputs += [("include-graph", dict(f, **{"main.s": f["a.s"]})) for f in gfiles[:: max(1, len(gfiles) // (25 if tier == "quick" else 300))]]
    cli_inputs += [("mutation", {"main.s": m}) for m in mutations(corpus.VIOLATING, r, 10 if tier == "quick" else 150)]
    # include cycles that do not pass through the base file, in three spellings of the path (always run)
    for pre in ("", "./", "../" + "x/"):
        sub = "x/" if pre.startswith("../") else ""
        for cyc in ({"b.s": ["b.s"]}, {"b.s": ["c.s"], "c.s": ["b.s"]}, {"b.s": ["c.s"], "c.s": ["c.s"]}):
            files = {"main.s": f'main:\n    li a7, 10\n    ecall\n.include "{sub}b.s"\n'}
            for f in ("b.s", "c.s"):
                files[sub + f] = f"l_{f[0]}:\n    nop\n" + "".join(f'.include "{pre}{t}"\n' for t in cyc.get(f, []))
            cli_inputs.append(("include-cycle", files))
    # text with multi-byte characters in front of a reported position (pretty printer: columns vs bytes)
    WIDE = {"é", "€", "😀", "\u3000", "\u00a0"}
    wide = []
    for c in sres[0]:
        t = [ALPHABET[i - 1] for i in c["s"]]
        if any(x in WIDE for x in t[:-1]) and t[-1] not in WIDE and t[-1].strip() != "":
            wide.append("".join(t))
    r.shuffle(wide)
    for t in wide[:1500 if tier == "quick" else 20000]:
        cli_inputs.append(("string-wide", {"main.s": t}))
    for wch in sorted(WIDE):
        for t in (f'.ascii "{wch}{wch}" 5\n', f'{wch}{wch}li a0\n', f'li t0, 1 # {wch}\n', f"li a0, '{wch}' 7\n", f'\t{wch} addi t0, t0\n',
                  f'L{wch}: j L{wch}\n', f'# {wch}\nmain:\n    lw a0, {wch}(sp)\n',
                  f'{wch * 4}nop\n', f'{wch * 4}li t0, 1\n', f'main:\n{wch * 3}\taddi t0, t0\n'):
            cli_inputs.append(("wide-line", {"main.s": t}))
    # the extreme boundary pairs of Gen_Overflow through the modes that print values and stack slots (Display / Serialize of the facts)
    ext = {0, -1, 1, 2147483647, -2147483648, -2147483647}
    for c in ores[0]:
        if c["x"] in ext and c["y"] in ext:
            cli_inputs.append(("overflow", {"main.s": c["text"]}))
    # the long runs again through the binary (its own stack size and frame sizes)
    if not replay:
        for cls, kw in reps:
            if cls == "repeat:1" or r.random() < 0.15:
                cli_inputs.append(("repeat", {"main.s": kw["text"]}))
    bins = [("debug", rva)]
    if tier == "thorough":
        bins.append(("release", build_cli(release=True)))
    jobs = []
    with tempfile.TemporaryDirectory(dir=WORK) as td:
        for k, (cls, files) in enumerate(cli_inputs):
            d = os.path.join(td, str(k))
            os.makedirs(d)
            for n, t in files.items():
                os.makedirs(os.path.dirname(os.path.join(d, n)), exist_ok=True)
                open(os.path.join(d, n), "w", newline="", encoding="utf-8").write(t)
            for bname, b in bins:
                ms = modes if cls not in ("string", "string-wide", "wide-line", "repeat") else (modes[:4] if cls == "string" else [[], ["--no-color"]])
                if cls == "overflow":
                    ms = [["--debug", "--no-output"], ["--yaml", "--no-output"], ["--json"]]
                for m in ms:
                    jobs.append((cls, files, bname, b, m, os.path.join(d, "main.s")))

        def one(job):
            cls, files, bname, b, m, path = job
            try:
                p = subprocess.run([b, "lint", path] + m, stdout=subprocess.PIPE, stderr=subprocess.PIPE,
                                   timeout=60 if cls == "repeat" else 10)
                return {"ev": "cli", "class": cls + ":" + bname, "timeout": False, "rc": p.returncode,
                        "panicked": b"panicked" in p.stderr or b"overflowed its stack" in p.stderr, "mode": " ".join(m), "files": files}
            except subprocess.TimeoutExpired:
                return {"ev": "cli", "class": cls + ":" + bname, "timeout": True, "rc": -1,
                        "panicked": False, "mode": " ".join(m), "files": files}
        from concurrent.futures import ThreadPoolExecutor
        with ThreadPoolExecutor(max_workers=10) as ex:
            cli_evs = list(ex.map(one, jobs))
    ncli = len(cli_evs)
    out.cov["traces_validated_against_impl"] = len(evs) + ncli      # every recorded run is one event of the validated trace
    evs += cli_evs
    for i, e in enumerate(evs):
        e["id"] = i + 1
    slim = [{k: v for k, v in e.items() if k != "files"} for e in evs]
    v, ress = validate_chunks("Trace_Robust", slim, wd, "robust.chunk", chunk=40000, heap="8g")
    for rr in ress:
        out.add_tlc(rr)
    for x in v:
        e = evs[x["id"] - 1]
        if e["ev"] == "cli":
            x["class"], x["case"] = e["class"], {"files": e["files"], "mode": e["mode"]}
        else:
            cls, kw = cases[x["id"] - 1]
            x["class"], x["case"] = cls, kw
            x["msg"] = e.get("msg", "")
    out.add_verdicts(v)
    from collections import Counter
    classes = Counter(c.split(":")[0] for c, _ in cases)
    out.sample({"class": "string", "text": hc[5]["text"]})
    out.sample({"class": "overflow", "text": next(kw["text"] for c, kw in cases if c.startswith("overflow"))})
    out.sample({"class": "include-graph", "files": gfiles[len(gfiles) // 2]})
    out.assumptions += [
        "arbitrary Unicode text is explored over a structured, bounded input model (alphabet strings, mutations, generated programs), not by coverage-guided fuzzing",
        "watchdog 10 s per input of < 2 kB, 60 s for the long-run inputs (30-200 kB of one or two repeated symbols); a timeout, panic or crash is a violation",
        "growth is judged on deterministic hook counters (sweeps per pass <= 4N+3; PassLoop.tla establishes 2N+1 for its one-fact model), never on wall-clock ratios",
        "debug profile (overflow checks on) for the library entry point; the release binary is exercised in the thorough tier",
    ]
    return out.finish(level="exploration", extra_cov={
        "evaluations": len(evs), "distinct_nontrivial": len({json.dumps(kw, sort_keys=True) for _, kw in cases}),
        "classes": dict(classes), "cli_runs": ncli, "growth_nodes_vs_max_sweeps": {k: sorted(v) for k, v in growth.items()},
        "exhaustive": False,
        "rule": "long runs of every alphabet symbol, of statement lines and of symbol pairs (harness and rva binary); text with multi-byte characters before a reported position through the pretty printer; all strings over a 28-symbol lexer alphabet up to length 3 (quick) / 4 (thorough) [exhaustive, Gen_Strings]; Gen_Overflow boundary-grid programs (28 shapes); all include graphs over three files incl. self loops, cycles, missing files [Gen_IncGraph, exhaustive in thorough], also with a reader that never reports cycles; Gen_Values/Gen_Flow simulations; every layout order of a 2..3 (thorough: 4) block cycle [Gen_Blocks, exhaustive]; token/line mutations and truncations of corpus programs; scaled programs for the sweep bound; rva in 10 output modes (the extreme Gen_Overflow pairs in --debug / --yaml / --json)",
    })
