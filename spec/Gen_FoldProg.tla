---------------------------- MODULE Gen_FoldProg ----------------------------
(* spec -> impl generator (C01): two constants, one arithmetic instruction,   *)
(* for every register-register operator and every pair of boundary operands;  *)
(* every register-immediate operator with boundary operands and immediates.   *)
(* The analysis folds the result into a constant claim; the reference machine *)
(* executes the instruction (Trace_Exec), so a wrong fold is a false claim.   *)
(* The result also becomes an ecall number and a stack offset, the two places *)
(* where diagnostics rest on a folded value.                                  *)
EXTENDS Integers, Sequences, TLC, Json
VARIABLES phase, op, x, y
vars == <<phase, op, x, y>>

RR == << "add", "sub", "and", "or", "xor", "sll", "srl", "sra", "slt", "sltu",
         "mul", "mulh", "mulhsu", "mulhu", "div", "divu", "rem", "remu" >>
RI == << "addi", "andi", "ori", "xori", "slti", "sltiu", "slli", "srli", "srai" >>
Vals == << 0, 1, -1, 2, 31, 32, 2147483647, (-2147483647 - 1), -2147483647, 65536, 10, 93 >>
Imms == << 0, 1, -1, 31, 2047, -2048 >>
Shamts == << 0, 1, 31 >>

S(i) == ToString(i)
ProgRR(o, a, b) ==
  "main:\n    li t0, " \o S(a) \o "\n    li t1, " \o S(b) \o "\n    " \o o \o " t2, t0, t1\n"
  \o "    mv a7, t2\n    mv a0, t2\n    ecall\n    li a7, 10\n    ecall\n"
ProgRI(o, a, i) ==
  "main:\n    li t0, " \o S(a) \o "\n    " \o o \o " t2, t0, " \o S(i) \o "\n"
  \o "    mv a7, t2\n    mv a0, t2\n    ecall\n    li a7, 10\n    ecall\n"

\* the zero register as an operand (the analysis has special cases for it)
ProgRZ(o, b) ==
  "main:\n    li t1, " \o S(b) \o "\n    " \o o \o " t2, zero, t1\n    " \o o \o " t3, t1, zero\n"
  \o "    mv a7, t2\n    mv a0, t3\n    ecall\n    li a7, 10\n    ecall\n"
ProgIZ(o, i) ==
  "main:\n    " \o o \o " t2, zero, " \o S(i) \o "\n"
  \o "    mv a7, t2\n    mv a0, t2\n    ecall\n    li a7, 10\n    ecall\n"
Init == phase = "start" /\ op = "" /\ x = 0 /\ y = 0
Pick ==
  /\ phase = "start"
  /\ \/ \E o \in 1..Len(RR), a \in 1..Len(Vals), b \in 1..Len(Vals) :
          op' = RR[o] /\ x' = Vals[a] /\ y' = Vals[b]
     \/ \E o \in 1..Len(RI), a \in 1..Len(Vals), i \in 1..Len(Imms) :
          /\ op' = RI[o] /\ x' = Vals[a]
          /\ y' = (IF RI[o] \in {"slli", "srli", "srai"} THEN Shamts[((i - 1) % Len(Shamts)) + 1] ELSE Imms[i])
     \/ \E o \in 1..Len(RR), b \in 1..Len(Vals) : op' = "z:" \o RR[o] /\ x' = 0 /\ y' = Vals[b]
     \/ \E o \in 1..Len(RI), i \in 1..Len(Imms) :
          /\ op' = "z:" \o RI[o] /\ x' = 0
          /\ y' = (IF RI[o] \in {"slli", "srli", "srai"} THEN Shamts[((i - 1) % Len(Shamts)) + 1] ELSE Imms[i])
  /\ phase' = "emit"
Emit ==
  /\ phase = "emit"
  /\ PrintT("CASE " \o ToJson([text |-> (IF \E o \in 1..Len(RR) : RR[o] = op THEN ProgRR(op, x, y)
                                          ELSE IF \E o \in 1..Len(RI) : RI[o] = op THEN ProgRI(op, x, y)
                                          ELSE IF \E o \in 1..Len(RR) : "z:" \o RR[o] = op THEN ProgRZ(SubSeq(op, 3, Len(op)), y)
                                          ELSE ProgIZ(SubSeq(op, 3, Len(op)), y)),
                               op |-> op, x |-> x, y |-> y]))
  /\ phase' = "done" /\ UNCHANGED <<op, x, y>>
Next == Pick \/ Emit
Spec == Init /\ [][Next]_vars
=============================================================================
