CONSTANTS MaxLen = 3
          NSym = 28
INIT Init
NEXT Next
CHECK_DEADLOCK FALSE
