CONSTANT NP = 11
INIT Init
NEXT Next
CHECK_DEADLOCK FALSE
