CONSTANTS MinN = 2
          MaxN = 9
INIT Init
NEXT Next
CHECK_DEADLOCK FALSE
