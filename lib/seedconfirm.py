#!/usr/bin/env python3
"""Confirm seeded changes in a scratch worktree outside /repo and /verif:
   demo passes on the clean tree, the patched tree compiles, passes the repository's test suite, and fails the demo.
   usage: lib/seedconfirm.py seeded/<name> ...   (results are written into each meta.json under "confirmed")"""
import json, os, shutil, subprocess, sys
WT = "/tmp/confirm_wt"
TGT = "/tmp/confirm_target"
ENV = dict(os.environ, CARGO_TARGET_DIR=TGT, CARGO_NET_OFFLINE="true")


def sh(cmd, cwd=WT, timeout=1800):
    return subprocess.run(cmd, cwd=cwd, env=ENV, capture_output=True, text=True, timeout=timeout)


def demo(d):
    rs = [f for f in os.listdir(d) if f.startswith("demo") and f.endswith(".rs")]
    shs = [f for f in os.listdir(d) if f.startswith("demo") and f.endswith(".sh")]
    if rs:
        txt = open(os.path.join(d, rs[0])).read()
        crate = "riscv_analysis_cli" if ("assert_cmd" in txt or "riscv_analysis_cli" in txt) else "riscv_analysis"
        os.makedirs(os.path.join(WT, crate, "tests"), exist_ok=True)
        shutil.copy(os.path.join(d, rs[0]), os.path.join(WT, crate, "tests", "seeded_demo.rs"))
        r = sh(["cargo", "test", "--offline", "-p", crate, "--test", "seeded_demo"])
        os.remove(os.path.join(WT, crate, "tests", "seeded_demo.rs"))
        return r.returncode == 0, (r.stdout + r.stderr)[-600:]
    if shs:
        sh(["cargo", "build", "--offline", "-p", "riscv_analysis_cli"])
        env = dict(ENV, RVA=os.path.join(TGT, "debug", "rva"), REPO=WT)
        r = subprocess.run(["bash", os.path.join(d, shs[0])], cwd=WT, env=env, capture_output=True, text=True, timeout=600)
        return r.returncode == 0, (r.stdout + r.stderr)[-600:]
    return None, "no demo"


def main():
    if not os.path.exists(WT):
        subprocess.run(["git", "-C", "/repo", "worktree", "add", "-q", "--detach", WT, "HEAD"], check=True)
    for d in sys.argv[1:]:
        d = os.path.abspath(d)
        sh(["git", "checkout", "-q", "--detach", subprocess.run(["git", "-C", "/repo", "rev-parse", "HEAD"], capture_output=True, text=True).stdout.strip()])
        sh(["git", "checkout", "--", "."]); sh(["git", "clean", "-fdq"])
        clean_ok, clean_out = demo(d)
        a = sh(["git", "apply", os.path.join(d, "patch.diff")])
        if a.returncode != 0:
            a = sh(["patch", "-p1", "-F3", "--no-backup-if-mismatch", "-i", os.path.join(d, "patch.diff")])
        t = sh(["cargo", "test", "--workspace", "--offline"])
        suite_ok = t.returncode == 0
        patched_ok, patched_out = demo(d)
        sh(["git", "checkout", "--", "."]); sh(["git", "clean", "-fdq"])
        res = {"demo_passes_on_clean_tree": clean_ok, "patch_applies": a.returncode == 0, "suite_passes_with_patch": suite_ok,
               "demo_fails_with_patch": (patched_ok is False)}
        ok = all(v is True for v in res.values())
        print(os.path.basename(d), "CONFIRMED" if ok else "NOT CONFIRMED", res)
        if not ok:
            print("  clean:", clean_out[-300:].replace("\n", " | "))
            print("  patched:", patched_out[-300:].replace("\n", " | "))
        mp = os.path.join(d, "meta.json")
        meta = json.load(open(mp)) if os.path.exists(mp) else {}
        meta["confirmed"] = res
        meta["confirmed_ok"] = ok
        json.dump(meta, open(mp, "w"), indent=1)


if __name__ == "__main__":
    main()
