----------------------------- MODULE Trace_Cfg -----------------------------
(* impl -> spec: the finished Cfg, the function table, the lints and the     *)
(* analysis errors recorded from the real pipeline are validated against     *)
(* CfgRef (C03 edges / reachability, C11 functions, C16 failures).           *)
EXTENDS CfgRef, Text, Json, IOUtils
Rec == ndJsonDeserialize(IOEnv.TRACE)
VARIABLES l
vars == <<l>>

RECURSIVE Cat(_, _, _)
Cat(f(_), n, i) == IF i > n THEN <<>> ELSE f(i) \o Cat(f, n, i + 1)
KN(cfg, a) == Kind(cfg.nodes[a].node)

\* ------------------------------------------------------------------- C03
Asym(cfg) ==
  \E a \in 1..NN(cfg) :
     \/ \E b \in SeqSet(cfg.nodes[a].nexts) : a \notin SeqSet(cfg.nodes[b].prevs)
     \/ \E b \in SeqSet(cfg.nodes[a].prevs) : a \notin SeqSet(cfg.nodes[b].nexts)

\* cfg nodes a lint is located on (same file and raw range)
NodesAt(cfg, x) == { i \in 1..NN(cfg) : LET n == cfg.nodes[i].node IN n.file = x.file /\ n.r0 = x.r0 /\ n.r1 = x.r1 }

JudgeC03(e) ==
  IF ~e.cfgok THEN <<>>
  ELSE LET cfg == e.cfg IN
  (IF Asym(cfg) THEN << "C03:asymmetric" >> ELSE <<>>)
  \o
  (IF ~InC03Domain(cfg) THEN <<>>
   ELSE LET reach == RefReach(cfg)
            edge(a) ==
              LET nx == SeqSet(cfg.nodes[a].nexts)
                  extra == nx \ May(cfg, a)
                  miss  == IF a \in reach THEN (Must(cfg, a) \ {0}) \ nx ELSE {}
              IN (IF extra # {} THEN << "C03:unjustified-edge:" \o KN(cfg, a) >> ELSE <<>>)
                 \o (IF miss # {} THEN << "C03:missing-edge:" \o KN(cfg, a) \o ":"
                                          \o (IF (a + 1) \in miss THEN "fallthrough" ELSE "target") >> ELSE <<>>)
            unr(i) ==
              IF e.lints[i].code = "unreachable-code" /\ NodesAt(cfg, e.lints[i]) \cap reach # {}
                THEN << "C03:reachable-reported-unreachable:"
                        \o KN(cfg, CHOOSE a \in NodesAt(cfg, e.lints[i]) \cap reach : TRUE) >>
                ELSE <<>>
        IN Cat(edge, NN(cfg), 1) \o Cat(unr, Len(e.lints), 1))

\* ------------------------------------------------------------------- C11
\* Which instruction a label stands in front of, read off the parsed statements (the list the graph is built from),
\* not off the labels the graph shows on its nodes: a label of the text segment names the next instruction, whatever
\* directives stand in between.  Nothing is required of labels in the data segment.
SegAt(ns, j) ==
  LET ds == { i \in 1..(j - 1) : ns[i].k = "Directive" /\ ns[i].dir \in {".data", ".text"} }
  IN IF ds = {} THEN ".text" ELSE ns[CHOOSE i \in ds : \A i2 \in ds : i2 <= i].dir
NextInst(ns, j) ==
  LET is == { i \in (j + 1)..Len(ns) : ns[i].isinst } IN IF is = {} THEN 0 ELSE CHOOSE i \in is : \A i2 \in is : i <= i2
SameText(a, b) == a.file = b.file /\ a.r0 = b.r0 /\ a.r1 = b.r1
CodeLabelsOf(ns, x) ==
  { ns[j].lab : j \in { q \in 1..Len(ns) : /\ ns[q].k = "Label" /\ SegAt(ns, q) = ".text"
                                             /\ NextInst(ns, q) # 0 /\ SameText(ns[NextInst(ns, q)], x) } }
DataLabels(ns) == { ns[j].lab : j \in { q \in 1..Len(ns) : ns[q].k = "Label" /\ SegAt(ns, q) # ".text" } }
ShownLabelsOf(cfg, x) == UNION { SeqSet(cfg.nodes[i].labels) : i \in { q \in 1..NN(cfg) : SameText(cfg.nodes[q].node, x) } }
JudgeLabels(e) ==
  LET cfg == e.cfg ns == e.nodes
      one(i) == LET x == cfg.nodes[i].node
                    want == CodeLabelsOf(ns, x)
                    got  == ShownLabelsOf(cfg, x)
                IN IF x.k \in {"ProgramEntry"} \/ ~x.isinst THEN <<>>
                   ELSE (IF want \ got # {} THEN << "C11:labels:instruction-lost-a-label" >> ELSE <<>>)
                        \o (IF (got \ want) \ DataLabels(ns) # {} THEN << "C11:labels:label-on-another-instruction" >> ELSE <<>>)
  IN Cat(one, NN(cfg), 1)

Rows(cfg) == 1..Len(cfg.funcs)
\* the analysis stopped with "label without instruction": justified only if some label that a statement names is
\* followed by no instruction at all (read off the statements)
UsedLabels(ns) == { ns[i].lab : i \in { j \in 1..Len(ns) : ns[j].k \in {"JumpLink", "Branch", "LoadAddr"} } } \ {"", "<return>"}
Dangling(ns) == { u \in UsedLabels(ns) : /\ \E j \in 1..Len(ns) : ns[j].k = "Label" /\ ns[j].lab = u
                                         /\ \A j \in 1..Len(ns) : (ns[j].k = "Label" /\ ns[j].lab = u) => NextInst(ns, j) = 0 }
JudgeC11(e) ==
  IF ~e.cfgok
    THEN (IF e.cfgerr_kind = "Label without instruction" /\ Len(e.errors) = 0 /\ Dangling(e.nodes) = {}
            THEN << "C11:labels:label-rejected-although-an-instruction-follows" >> ELSE <<>>)
  ELSE LET cfg == e.cfg
           called  == { cfg.nodes[i].node.lab : i \in { j \in 1..NN(cfg) : KN(cfg, j) = "call" } } \cup HandlerLabels(cfg)
           fentry  == { i \in 1..NN(cfg) : KN(cfg, i) = "fentry" }
           expectE == { i \in 1..NN(cfg) : SeqSet(cfg.nodes[i].labels) \cap called # {} }
           tableE  == { cfg.funcs[k].entry : k \in Rows(cfg) }
           row(k) ==
             LET f == cfg.funcs[k]
                 body == ObsReach(cfg, f.entry)
                 ns == SeqSet(f.nodes)
                 rets == { i \in ns : KN(cfg, i) \in {"ret", "merge"} /\ i # f.exit }
                 q == IF \E i \in 1..NN(cfg) : Cardinality(SeqSet(cfg.nodes[i].funcs)) >= 2
                      THEN ":functions-share-code" ELSE ":no-shared-code"
             IN (IF body \ ns # {} THEN << "C11:body:missing-nodes" \o q >> ELSE <<>>)
                \o (IF ns \ body # {} THEN << "C11:body:extra-nodes" \o q >> ELSE <<>>)
                \o (IF f.exit \notin ns THEN << "C11:exit:not-in-body" \o q >> ELSE <<>>)
                \o (IF f.exit >= 1 /\ f.exit <= NN(cfg) /\ KN(cfg, f.exit) # "ret" THEN << "C11:exit:not-a-return" \o q >> ELSE <<>>)
                \o (LET unmerged == { i \in rets : f.exit \notin ObsReach(cfg, i) }
                        foreign(i) == \E k2 \in Rows(cfg) : k2 # k /\ cfg.funcs[k2].entry # f.entry /\ cfg.funcs[k2].exit = i
                    IN IF unmerged = {} THEN <<>>
                       \* a return that is the exit of another function has to stay a return: a function that runs into
                       \* the exits of two other functions cannot have them merged (recorded finding, own key)
                       ELSE IF foreign(f.exit) /\ \A i \in unmerged : foreign(i)
                         THEN << "C11:exit:return-not-merged:the-function-reaches-the-exits-of-two-other-functions" >>
                       ELSE << "C11:exit:return-not-merged" \o q >>)
                \o (IF f.label \notin SeqSet(cfg.nodes[f.entry].labels) THEN << "C11:table:label-not-on-entry" >> ELSE <<>>)
           own(i) ==
             IF SeqSet(cfg.nodes[i].funcs) # { cfg.funcs[k].entry : k \in { r \in Rows(cfg) : i \in SeqSet(cfg.funcs[r].nodes) } }
               THEN << "C11:owners-inconsistent" >> ELSE <<>>
           shared   == \E i \in 1..NN(cfg) : Cardinality(SeqSet(cfg.nodes[i].funcs)) >= 2
           sharedE  == { i \in fentry : Cardinality(SeqSet(cfg.nodes[i].funcs)) >= 2 }
           nrep     == Cardinality({ i \in 1..Len(e.lints) : e.lints[i].code = "node-in-many-functions" })
           reported == nrep > 0
       IN JudgeLabels(e)
          \o (IF fentry \ expectE # {} THEN << "C11:function-entry:not-a-call-target" >> ELSE <<>>)
          \o (IF expectE \ fentry # {} THEN << "C11:function-entry:call-target-not-a-function" >> ELSE <<>>)
          \* a label that a call names but that stands in front of no instruction (end of file, data only) is no function
          \* although a call names it: the analysis must not go on as if nothing were wrong
          \o (IF \E i \in 1..NN(cfg) : KN(cfg, i) = "call" /\ Target(cfg, cfg.nodes[i].node.lab) = 0
                THEN << "C11:function-entry:called-label-carries-no-instruction" >> ELSE <<>>)
          \o (IF tableE # fentry THEN << "C11:table:entries-differ-from-function-entries" >> ELSE <<>>)
          \o Cat(row, Len(cfg.funcs), 1)
          \o Cat(own, NN(cfg), 1)
          \o (IF sharedE # {} /\ nrep # Cardinality(sharedE) THEN << "C11:sharing:shared-entries-vs-reports" >> ELSE <<>>)
          \o (IF sharedE = {} /\ shared /\ ~reported THEN << "C11:sharing:unreported:no-shared-entry" >> ELSE <<>>)
          \o (IF reported /\ ~shared THEN << "C11:sharing:spurious" >> ELSE <<>>)

\* ------------------------------------------------------------------- C16
NameCps(s) == CASE s = "L1" -> <<76, 49>> [] s = "L2" -> <<76, 50>> [] s = "D1" -> <<68, 49>>
                [] s = "K1" -> <<75, 49>> [] s = "K2" -> <<75, 50>>
                [] s = "main" -> <<109, 97, 105, 110>> [] OTHER -> <<>>
UsesAtEof(c, q, syms) == c.pos[q] = c.n + 1 /\ \E i \in 1..Len(c.syms) : c.syms[i] \in syms
JudgeC16(e) ==
  IF Len(e.errors) > 0 THEN << "C16:generator-program-does-not-parse" >>
  ELSE
  LET ns == e.nodes
      defs == [i \in 1..Len(ns) |-> IF ns[i].k = "Label" THEN ns[i].lab ELSE ""]
      defined == SeqSet(defs) \ {""}
      dups == { d \in defined : Cardinality({ i \in 1..Len(ns) : defs[i] = d }) >= 2 }
      \* the labels a statement names, read off the parsed statement itself (not the implementation's
      \* jumps_to / calls_to / reads_address_of, which are part of what is being judged)
      used == { ns[i].lab : i \in { j \in 1..Len(ns) : ns[j].k \in {"JumpLink", "Branch", "LoadAddr"} } } \ {"", "<return>"}
      undef == used \ defined
      c == e.case
      cond == IF undef # {} THEN "undefined-label" ELSE IF dups # {} THEN "duplicate-label"
              ELSE IF \E i \in 1..Len(c.syms) : c.syms[i] = "CD" THEN "call-into-data"
              ELSE IF UsesAtEof(c, 1, {"C1", "JL1"}) \/ UsesAtEof(c, 2, {"C2"})
                      \/ UsesAtEof(c, 3, {"BK1", "JK1"}) \/ UsesAtEof(c, 4, {"BK2", "JK2"})
                   THEN "label-at-end-of-file"
              ELSE "other"
  IN
  IF e.cfgok
    THEN (IF undef # {} THEN << "C16:undefined-label:undetected" >> ELSE <<>>)
         \o (IF dups # {} THEN << "C16:duplicate-label:undetected" >> ELSE <<>>)
    ELSE
      LET err == e.cfgerr
          T == IF err.file >= 1 /\ err.file <= Len(e.files) THEN e.files[err.file].text ELSE <<>>
          sl == Slice(T, err.r0, err.r1)
      IN (IF err.title \in {"Unexpected error", "Assertion error"} THEN << "C16:" \o cond \o ":generic-error" >> ELSE <<>>)
         \o (IF err.file # 1 THEN << "C16:" \o cond \o ":not-in-base-file" >> ELSE <<>>)
         \o (IF cond = "undefined-label" /\ err.file = 1 /\ ~(\E u \in undef : sl = NameCps(u))
               THEN << "C16:undefined-label:not-at-an-occurrence" >> ELSE <<>>)
         \o (IF cond = "duplicate-label" /\ err.file = 1 /\ ~(\E u \in dups : sl = NameCps(u) \/ sl = NameCps(u) \o <<58>>)
               THEN << "C16:duplicate-label:not-at-an-occurrence" >> ELSE <<>>)
         \o (IF cond \in {"undefined-label", "duplicate-label"} /\ err.level # "Error"
               THEN << "C16:" \o cond \o ":not-an-error" >> ELSE <<>>)

Judge(e) == IF e.ev # "obs" THEN << "CXX:" \o e.ev >> ELSE JudgeC03(e) \o JudgeC11(e) \o JudgeC16(e)

RECURSIVE Dedup(_, _, _)
Dedup(s, i, seen) == IF i > Len(s) THEN <<>>
                     ELSE IF s[i] \in seen THEN Dedup(s, i + 1, seen) ELSE <<s[i]>> \o Dedup(s, i + 1, seen \cup {s[i]})
RECURSIVE Report(_, _, _)
Report(e, bad, i) ==
  IF i > Len(bad) THEN TRUE
  ELSE PrintT("VERDICT " \o ToJson([id |-> e.id, key |-> bad[i]])) /\ Report(e, bad, i + 1)

Init == l = 1
Next == /\ l <= Len(Rec)
        /\ Report(Rec[l], Dedup(Judge(Rec[l]), 1, {}), 1)
        /\ l' = l + 1
Spec == Init /\ [][Next]_vars
Accepted == IF TLCGet("stats").diameter = Len(Rec) + 1 THEN TRUE
            ELSE PrintT("TRACE-NOT-CONSUMED") /\ FALSE
=============================================================================
