"""Shared machinery of the /verif check driver.

Pipeline of every check (see DESIGN.md §4):
  1. build the harness (and, where needed, the rva binary) from /repo's working tree
  2. TLC explores a generator specification  -> cases          (spec -> impl)
  3. the harness runs the real code on the cases -> trace.ndjson
  4. TLC validates the trace against the reference specification (impl -> spec);
     every event is judged, failures are printed as VERDICT lines with a key
  5. verdict keys are compared with known_findings.json; evidence is written
"""
import hashlib
import json
import os
import random
import re
import shutil
import subprocess
import sys
import time

VERIF = os.path.dirname(os.path.dirname(os.path.abspath(__file__)))
REPO = os.environ.get("VERIF_REPO") or os.environ.get("VP_RUN_REPO") or "/repo"
SPEC = os.path.join(VERIF, "spec")
WORK = os.path.join(VERIF, "work")
HARNESS = os.path.join(VERIF, "harness")
EVID = os.path.join(VERIF, "evidence")
REPLAYS = os.path.join(VERIF, "replays")
KNOWN = os.path.join(VERIF, "known_findings.json")


class ToolError(Exception):
    pass


def log(*a):
    print(*a, file=sys.stderr, flush=True)


def seed():
    try:
        return int(os.environ.get("VERIF_SEED", "1"))
    except ValueError:
        return 1


def rng(tag=""):
    return random.Random(f"{seed()}:{tag}")


# --------------------------------------------------------------------------- build

def _run(cmd, cwd=None, env=None, timeout=None, check=True):
    p = subprocess.run(cmd, cwd=cwd, env=env, timeout=timeout,
                       stdout=subprocess.PIPE, stderr=subprocess.STDOUT, text=True)
    if check and p.returncode != 0:
        raise ToolError(f"command failed ({p.returncode}): {' '.join(cmd)}\n{p.stdout[-4000:]}")
    return p


def cargo_env():
    env = dict(os.environ)
    env["CARGO_NET_OFFLINE"] = "true"
    env.pop("RUSTFLAGS", None)
    return env


def build_harness(release=False):
    """(Re)build rvh against /repo's current working tree, hooks on."""
    os.makedirs(WORK, exist_ok=True)
    lock_src = os.path.join(REPO, "Cargo.lock")
    lock_dst = os.path.join(HARNESS, "Cargo.lock")
    if not os.path.exists(lock_dst):
        shutil.copy(lock_src, lock_dst)
    # the path dependency follows REPO (default /repo; a snapshot when run under `vp run --with-repo`)
    tmpl = open(os.path.join(HARNESS, "Cargo.toml.in")).read().replace("@REPO@", REPO)
    ct = os.path.join(HARNESS, "Cargo.toml")
    if not os.path.exists(ct) or open(ct).read() != tmpl:
        open(ct, "w").write(tmpl)
    cmd = ["cargo", "build", "--offline", "--quiet"]
    if release:
        cmd.append("--release")
    t0 = time.time()
    p = _run(cmd, cwd=HARNESS, env=cargo_env(), timeout=1800, check=False)
    if p.returncode != 0:
        # a lock file that no longer fits /repo: regenerate from /repo's and retry once
        shutil.copy(lock_src, lock_dst)
        p = _run(cmd, cwd=HARNESS, env=cargo_env(), timeout=1800, check=False)
        if p.returncode != 0:
            raise ToolError("harness build failed:\n" + p.stdout[-6000:])
    log(f"[build] harness {'release' if release else 'debug'} {time.time()-t0:.1f}s")
    return os.path.join(WORK, "target", "release" if release else "debug", "rvh")


def build_cli(release=False):
    """Build the rva binary from /repo into /verif/work/target-cli."""
    tdir = os.path.join(WORK, "target-cli")
    cmd = ["cargo", "build", "--offline", "--quiet", "-p", "riscv_analysis_cli",
           "--manifest-path", os.path.join(REPO, "Cargo.toml"), "--target-dir", tdir]
    if release:
        cmd.append("--release")
    env = cargo_env()
    env["RUSTFLAGS"] = "--cfg rva_verif --check-cfg cfg(rva_verif)"
    t0 = time.time()
    p = _run(cmd, env=env, timeout=1800, check=False)
    if p.returncode != 0:
        raise ToolError("rva build failed:\n" + p.stdout[-6000:])
    log(f"[build] rva {'release' if release else 'debug'} {time.time()-t0:.1f}s")
    return os.path.join(tdir, "release" if release else "debug", "rva")


# --------------------------------------------------------------------------- TLC

class TlcResult:
    def __init__(self, out, rc, wall):
        self.out = out
        self.rc = rc
        self.wall = wall
        self.generated = 0
        self.distinct = 0
        self.depth = 0
        m = re.search(r"(\d+) states generated, (\d+) distinct states found", out)
        if m:
            self.generated = int(m.group(1))
            self.distinct = int(m.group(2))
        m = re.search(r"depth of the complete state graph search is (\d+)", out)
        if m:
            self.depth = int(m.group(1))
        # simulation mode
        m = re.search(r"(\d+) states checked, (\d+) traces generated", out)
        if m and not self.generated:
            self.generated = int(m.group(1))
            self.distinct = int(m.group(1))
        self.coverage = {}
        for m in re.finditer(r"^<(\w+) line \d+, col \d+ to line \d+, col \d+ of module (\w+)>: (\d+):(\d+)", out, re.M):
            self.coverage[m.group(1)] = (int(m.group(3)), int(m.group(4)))

    def tagged(self, tag):
        """Lines printed by PrintT(\"TAG \" \\o ToJson(x)) -> list of decoded x."""
        res = []
        pre = '"' + tag + " "
        for line in self.out.splitlines():
            if line.startswith(pre):
                try:
                    s = json.loads(line)
                except json.JSONDecodeError:
                    s = json.loads(line.replace("\\'", "'"))
                res.append(json.loads(s[len(tag) + 1:]))
        return res

    def errors(self):
        return [l for l in self.out.splitlines() if l.startswith("Error:") or "Exception" in l]


def run_tlc(module, cfg=None, workdir=None, env_extra=None, workers=8, simulate=None,
            depth=None, timeout=1800, heap="4g", coverage=False, dfs=False, seed_=None):
    """Run TLC on spec/<module>.tla.  Returns TlcResult; raises ToolError on tool failure
    (parse errors, timeouts) but NOT on invariant/postcondition violations (rc 12/13...)."""
    workdir = workdir or os.path.join(WORK, "tlc", module)
    shutil.rmtree(workdir, ignore_errors=True)
    os.makedirs(workdir, exist_ok=True)
    env = dict(os.environ)
    jopts = f"-DTLA-Library={SPEC} -Xss1g -Xmx{heap}"
    if dfs:
        jopts += " -Dtlc2.tool.queue.IStateQueue=StateDeque"
    env["JAVA_TOOL_OPTIONS"] = jopts
    if env_extra:
        env.update({k: str(v) for k, v in env_extra.items()})
    cmd = ["tlc", "-workers", str(workers), "-metadir", os.path.join(workdir, "md"),
           "-cleanup", "-noGenerateSpecTE",
           "-config", os.path.join(SPEC, (cfg or module) + ".cfg")]
    if coverage:
        cmd += ["-coverage", "1"]
    if simulate:
        cmd += ["-simulate", f"num={simulate}"]
        if depth:
            cmd += ["-depth", str(depth)]
    if seed_ is not None:
        cmd += ["-seed", str(seed_)]
    cmd.append(os.path.join(SPEC, module + ".tla"))
    t0 = time.time()
    try:
        p = subprocess.run(cmd, cwd=workdir, env=env, timeout=timeout,
                           stdout=subprocess.PIPE, stderr=subprocess.STDOUT, text=True)
    except subprocess.TimeoutExpired:
        raise ToolError(f"TLC timeout on {module}")
    wall = time.time() - t0
    res = TlcResult(p.stdout, p.returncode, wall)
    with open(os.path.join(workdir, "tlc.out"), "w") as f:
        f.write(p.stdout)
    shutil.rmtree(os.path.join(workdir, "md"), ignore_errors=True)
    if "Parsing or semantic analysis failed" in p.stdout or "Error: Error:" in p.stdout \
            or "java.lang.OutOfMemoryError" in p.stdout or "StackOverflowError" in p.stdout:
        raise ToolError(f"TLC failed on {module}:\n{p.stdout[-3000:]}")
    log(f"[tlc] {module}: rc={p.returncode} generated={res.generated} distinct={res.distinct} {wall:.1f}s")
    return res


def tlc_generate(module, cfg=None, tag="CASE", **kw):
    """spec -> impl: run a generator specification, collect the cases it prints."""
    res = run_tlc(module, cfg=cfg, **kw)
    if res.rc != 0:
        raise ToolError(f"generator {module} did not finish cleanly (rc={res.rc}):\n{res.out[-3000:]}")
    return res.tagged(tag), res


def tlc_validate(module, trace_path, cfg=None, extra_env=None, timeout=1800, heap="4g", workdir=None):
    """impl -> spec: validate a recorded trace.  Returns (verdicts, accepted, TlcResult).
    verdicts: list of dicts printed by the trace spec (each has at least `key`)."""
    env = {"TRACE": trace_path}
    if extra_env:
        env.update(extra_env)
    res = run_tlc(module, cfg=cfg, env_extra=env, workers=1, dfs=True, timeout=timeout, heap=heap, workdir=workdir)
    verdicts = res.tagged("VERDICT")
    accepted = (res.rc == 0) and "TRACE-NOT-CONSUMED" not in res.out
    if res.rc != 0 and not any("Postcondition" in l or "postcondition" in l for l in res.out.splitlines()):
        # an evaluation error inside the trace spec is a tool error, not a verdict
        raise ToolError(f"trace validation {module} failed to evaluate:\n{res.out[-3000:]}")
    return verdicts, accepted, res


def shared_programs(tier, out=None, part=4):
    """Gen_Shared: functions that share code (exhaustive, 256 programs); the quick tier takes every `part`-th, rotating with the seed"""
    cases, res = tlc_generate("Gen_Shared")
    if out is not None:
        out.add_tlc(res)
    texts = [c["text"] for c in cases]
    if tier != "thorough" and part > 1:
        texts = [t for i, t in enumerate(texts) if i % part == seed() % part]
    return texts


# --------------------------------------------------------------------------- harness

def write_ndjson(path, items):
    os.makedirs(os.path.dirname(path), exist_ok=True)
    with open(path, "w") as f:
        for it in items:
            f.write(json.dumps(it, separators=(",", ":")))
            f.write("\n")


def read_ndjson(path):
    """A process that died hard may leave a cut last line: it is dropped (the driver re-runs that case)."""
    with open(path) as f:
        lines = [l for l in f if l.strip()]
    out = []
    for i, l in enumerate(lines):
        try:
            out.append(json.loads(l))
        except json.JSONDecodeError:
            if i == len(lines) - 1:
                break
            raise
    return out


def run_harness(rvh, cases, workdir, name="trace", timeout_ms=10000, max_timeouts=6):
    """Run rvh over cases; restarts after a timeout or a hard crash so that every case
    yields exactly one event (ev = obs|...|panic|timeout|crash)."""
    os.makedirs(workdir, exist_ok=True)
    cpath = os.path.join(workdir, name + ".cases.ndjson")
    tpath = os.path.join(workdir, name + ".ndjson")
    write_ndjson(cpath, cases)
    if os.path.exists(tpath):
        os.remove(tpath)
    start = 0
    n = len(cases)
    first = True
    guard = 0
    retried = -1
    while start < n:
        guard += 1
        if guard > 2 * n + 50:
            raise ToolError("harness restart loop")
        cmd = [rvh, cpath, tpath, "--from", str(start), "--timeout-ms", str(timeout_ms)]
        if not first:
            cmd.append("--append")
        first = False
        p = subprocess.run(cmd, stdout=subprocess.PIPE, stderr=subprocess.STDOUT, text=True)
        done = len(read_ndjson(tpath)) if os.path.exists(tpath) else 0
        if p.returncode == 0:
            break
        if p.returncode == 4:      # the harness hands control back after a batch (its memory is returned to the system)
            start = done
            continue
        if p.returncode == 3:      # watchdog: event already written
            start = done
            ntimeouts = sum(1 for e in read_ndjson(tpath) if e.get("ev") == "timeout")
            if ntimeouts >= max_timeouts:
                # enough witnesses: the remaining cases are not explored (recorded as skipped, never as passed)
                evs = read_ndjson(tpath)
                evs += [{"ev": "skipped", "id": c.get("id"), "mode": c.get("mode")} for c in cases[start:]]
                write_ndjson(tpath, evs)
                break
            continue
        # hard crash (stack overflow / abort): attribute to the case in progress
        cur = done
        try:
            with open(tpath + ".cur") as f:
                cur = int(f.read().strip())
        except (OSError, ValueError):
            pass
        evs = read_ndjson(tpath) if os.path.exists(tpath) else []
        if len(evs) < cur:
            # events of earlier cases were lost with the process: run those cases again
            write_ndjson(tpath, evs)
            start = len(evs)
            continue
        evs = evs[:cur]
        # a process killed from outside (memory pressure) is not a crash of the code under test: the case is run
        # once more on its own in a fresh process, and only a second hard failure is recorded as a crash
        write_ndjson(tpath, evs)
        if retried != cur:
            retried = cur
            start = cur
            continue
        evs.append({"ev": "crash", "id": cases[cur].get("id"), "mode": cases[cur].get("mode"),
                    "rc": p.returncode, "msg": p.stdout[-300:]})
        write_ndjson(tpath, evs)
        start = cur + 1
    evs = read_ndjson(tpath)
    if len(evs) != n:
        raise ToolError(f"harness produced {len(evs)} events for {n} cases")
    return tpath, evs


def run_harness_par(rvh, cases, workdir, name="trace", timeout_ms=10000, shards=8, max_timeouts=6):
    """run_harness over interleaved shards of the cases in parallel processes; the events come
    back in case order (each case is independent: one fresh parser/analysis per case)."""
    from concurrent.futures import ThreadPoolExecutor
    n = len(cases)
    if n < 4 * shards:
        return run_harness(rvh, cases, workdir, name, timeout_ms, max_timeouts)
    # round robin: neighbouring cases are of the same kind (and cost), contiguous shards would be unbalanced
    parts = [cases[k::shards] for k in range(shards)]
    with ThreadPoolExecutor(max_workers=len(parts)) as ex:
        futs = [ex.submit(run_harness, rvh, part, workdir, f"{name}.s{k}", timeout_ms, max_timeouts)
                for k, part in enumerate(parts)]
        res = [f.result() for f in futs]
    if any(len(e) != len(part) for (tp, e), part in zip(res, parts)):
        raise ToolError("harness shards returned %s events for %s cases" % ([len(e) for tp, e in res], [len(q) for q in parts]))
    evs = [res[i % shards][1][i // shards] for i in range(n)]
    for tp, e in res:
        for suffix in ("", ".cur"):
            try:
                os.remove(tp + suffix)
            except OSError:
                pass
    tpath = os.path.join(workdir, name + ".ndjson")
    write_ndjson(tpath, evs)
    return tpath, evs


# --------------------------------------------------------------------------- verdicts

def load_known():
    if not os.path.exists(KNOWN):
        return []
    with open(KNOWN) as f:
        return json.load(f)["findings"]


class Outcome:
    """Collects verdicts for one property run and turns them into exit status + evidence."""

    def __init__(self, pid, tier):
        self.pid = pid
        self.tier = tier
        self.t0 = time.time()
        self.fail = {}        # key -> list of witnesses
        self.cov = {"states": 0, "transitions": 0, "traces_validated_against_impl": 0,
                    "samples": [], "evaluations": 0, "distinct_nontrivial": 0}
        self.notes = []
        self.assumptions = []
        self.drift = []

    def add_tlc(self, res):
        self.cov["states"] += res.distinct
        self.cov["transitions"] += res.generated

    def add_verdicts(self, verdicts, cases_by_id=None):
        for v in verdicts:
            key = v["key"]
            w = dict(v)
            if cases_by_id is not None and v.get("id") in cases_by_id:
                w["case"] = cases_by_id[v["id"]]
            self.fail.setdefault(key, []).append(w)

    def sample(self, x, limit=6):
        if len(self.cov["samples"]) < limit:
            self.cov["samples"].append(x)

    def finish(self, level="model_checking", extra_cov=None):
        known = {f["key"]: f for f in load_known()
                 if f["property"] == self.pid and f.get("status") == "known"}
        new = {k: v for k, v in self.fail.items() if k not in known}
        rc = 0
        for k in sorted(self.fail):
            if k in known:
                print(f"KNOWN-FINDING: property={self.pid} {known[k]['what']} [key={k}, {len(self.fail[k])} witness(es) this run]")
        for k in sorted(known):
            if k not in self.fail:
                print(f"KNOWN-FINDING: property={self.pid} {known[k]['what']} [key={k}, not exercised/reproduced in this run]")
        if new:
            rc = 1
            os.makedirs(os.path.join(REPLAYS, self.pid), exist_ok=True)
            for k in sorted(new):
                w = new[k][0]
                h = hashlib.sha1((k + json.dumps(w, sort_keys=True)).encode()).hexdigest()[:12]
                path = os.path.join(REPLAYS, self.pid, h + ".json")
                with open(path, "w") as f:
                    json.dump({"property": self.pid, "key": k, "witness": w,
                               "n_witnesses": len(new[k])}, f, indent=1)
                print(f"VIOLATION property={self.pid} replay={path}")
                print(f"  key={k} witnesses={len(new[k])} first={json.dumps(w)[:600]}")
        cov = dict(self.cov)
        if extra_cov:
            cov.update(extra_cov)
        cov["failing_keys"] = {k: len(v) for k, v in self.fail.items()}
        cov["known_keys_matched"] = sorted(k for k in self.fail if k in known)
        cov["spec_drift"] = self.drift[:20]
        if not cov["samples"]:
            cov["samples"] = ["(no sample recorded)"]
        ev = {
            "property_id": self.pid,
            "tier": self.tier,
            "seed": seed(),
            "level": level,
            "coverage": cov,
            "assumptions": self.assumptions,
            "wall_s": round(time.time() - self.t0, 2),
            "violations": len(new),
            "notes": self.notes,
        }
        os.makedirs(EVID, exist_ok=True)
        with open(os.path.join(EVID, self.pid + ".json"), "w") as f:
            json.dump(ev, f, indent=1)
        return rc


def validate_chunks(module, events, workdir, name, chunk=8000, par=4, **kw):
    """Validate a long trace in several TLC runs (JVM heap / JSON size); ids must be 1..n.
    The chunks are independent TLC runs (each restarts the trace machine) and run `par` at a time."""
    from concurrent.futures import ThreadPoolExecutor
    jobs = []
    for k in range(0, len(events), chunk):
        path = os.path.join(workdir, f"{name}.{k // chunk}.ndjson")
        write_ndjson(path, events[k:k + chunk])
        jobs.append((k // chunk, path))

    def one(job):
        i, path = job
        r = tlc_validate(module, path, workdir=os.path.join(WORK, "tlc", f"{module}.{name}.{i}"), **kw)
        os.remove(path)
        shutil.rmtree(os.path.join(WORK, "tlc", f"{module}.{name}.{i}"), ignore_errors=True)
        return r

    if len(jobs) <= 1 or par <= 1:
        outs = [one(j) for j in jobs]
    else:
        with ThreadPoolExecutor(max_workers=par) as ex:
            outs = list(ex.map(one, jobs))
    verdicts, results = [], []
    for (i, _), (v, acc, res) in zip(jobs, outs):
        if not acc:
            raise ToolError(f"{module}: trace chunk {i} not consumed")
        verdicts += v
        results.append(res)
    return verdicts, results
