#!/usr/bin/env python3
"""Regenerates MANIFEST.json from the table below (single source of truth)."""
import json, os
HERE = os.path.dirname(os.path.dirname(os.path.abspath(__file__)))
props = [json.loads(l) for l in open(os.path.join(HERE, "properties.jsonl"))]
CHECKS = {
 "C08": dict(
    category="model_checking",
    text="Bounded-exhaustive: TLC enumerates the whole decode table (Gen_Decode: every mnemonic x operand form x boundary operand choices x register spelling) and the 18 folded operators on a 33x33 boundary grid (Gen_Fold); the real parser / MathOp::operate are driven on every case and TLC validates each recorded result against the reference semantics (ISA.tla decode table + executable instruction semantics on a register grid for pseudo-expansions; Words.tla 32-bit arithmetic), plus random operand pairs. Finite table -> exhaustive for decoding; folding exhaustive on the grid and sampled beyond.",
    design_ref="DESIGN.md §5 C08",
    note="Trusted: TLC, the transcription of RV32IM into Words.tla/ISA.tla (Words cross-checked against Python bignum arithmetic), harness projection code. csrw-family operand order relaxed to manual-or-RARS.",
    technique="TLA+ reference semantics (Words/ISA) + TLC-generated cases replayed into the real parser + TLC trace validation of recorded results"),
 "C17": dict(
    category="model_checking",
    text="TLC enumerates Gen_Lit exhaustively (24 boundary magnitudes held as 16-bit limbs so that 2^32 and 2^33 exist, x notation x sign x case x leading zero x 6 operand contexts); the driver adds a malformed-spelling table, character literals and seeded random 34-bit values. Each spelling is parsed by the real parser and TLC validates the recorded imm / data value / csr number (or the parse error and its location) against Text!Denote. Finite boundary family exhaustive, remainder sampled. Also: Gen_CharLit - the grammar of character literals with its well-formed members and its near misses (every position of \\uXXXX replaced by a non-digit, too few / too many digits, unknown escapes, empty and two-character literals).",
    design_ref="DESIGN.md §5 C17",
    note="Trusted: TLC, Text!Denote (cross-checked per event against the generator's own magnitude), the character-literal table and Python spelling of random values. Weakest reading of 'fits in 32 bits' (see Trace_Lit header).",
    technique="TLA+ literal denotation (Text!Denote) + TLC-generated spellings replayed into the real parser + TLC trace validation"),
 "C09": dict(
    category="model_checking",
    text="TLC enumerates Gen_Layout (12 statement templates squared x leading blank lines x indentation x trailing comment x two statements on a line x base/included file; 20736 layouts, quick tier runs every 8th) and computes every statement/operand span from string lengths; the real lexer, parser and full lint pipeline run on each layout and TLC validates every reported location (tokens, nodes, operand tokens, parse errors, CFG errors, lint diagnostics) against Text!PosOf of the named file and against the generated spans; repository and corpus programs are validated for consistency as recorded traces. The instruction nodes of the finished graph must stand, in order, at the places of the parsed statements (a pass that replaces a node keeps its place). Also: every operand form of jalr and escapes in character literals among the templates (20 templates), corpus programs cut into two files at every line in both orders, and injected-violation programs with their functions moved into an included file (lints that relate two places then relate two files).",
    design_ref="DESIGN.md §5 C09",
    note="Trusted: TLC, Text.tla position function, harness projection. Inclusive range ends; label range includes the colon; CRLF handled under C07.",
    technique="TLA+ position function (Text!PosOf) + TLC-generated layouts replayed into lexer/parser/lints + TLC trace validation of every reported location"),
 "C07": dict(
    category="model_checking",
    text="TLC enumerates Gen_Lines exhaustively (all NL-line files over 9 well-formed line kinds with one malformed line of 13 fault kinds at every position, 3 line endings; NL=3 quick / NL=4 thorough), each with its twin where the malformed line is deleted; the real parser runs on both and TLC validates the recorded (nodes, errors): every non-blank, non-comment line is covered by a node or by an error located on it (Accounted), and the nodes/errors of all other lines equal the twin's (Contained). Every fifth file goes through .include; faults are also injected into repository/corpus programs. Also: Gen_Strays (29 stray symbols alone / before / inside / after / glued to an instruction at every line position), Gen_TokLines (every sequence of up to 3, thorough 4, tokens over 12 token classes as middle / last / unterminated last line), missing-include fault lines; and the as-built binding Trace_ParseLoop: step traces of the parser's statement loop recorded by rva_verif hooks (statement begin/end, every token taken, recovery, lexer stack) are judged token by token - a statement lives on one line, error recovery consumes at most the rest of its own line, a statement cut by the end of a file does not vanish.",
    design_ref="DESIGN.md §5 C07",
    note="Trusted: TLC, Text.tla line functions, harness projection. Blank = only spaces/tabs/commas/CR; comment-only = first other char '#'.",
    technique="TLA+ line-accounting reference (Text.tla) + TLC-generated faulty files and twins replayed into the real parser + TLC trace validation"),
 "C03": dict(
    category="model_checking",
    text="Static part of C03. TLC generates control-flow / call-graph / label arrangements from Gen_Flow (tlc -simulate over programs of 3..7 instructions in four shapes; exhaustive n=2 in the thorough tier); the real pipeline builds the finished Cfg and TLC validates each recorded graph against CfgRef: successor/predecessor symmetry; every edge justified (fall-through, written label, merge of an additional return into a function exit); every edge the reference requires of a reachable node present (fall-through, branch/jump target, return from call); no edge after an exit ecall; no reference-reachable node reported as unreachable code. Dynamic part: the edge monitor of Machine.tla checks, on executions of Gen_Values/Gen_Flow/corpus programs, that consecutive executed instructions of one frame are joined by an edge and that no executed instruction carries an unreachable-code diagnostic. Also: Gen_Shared (256 programs of two functions sharing a tail, every layout / way in / own-or-shared return / order of calls / result read or not), jumps that link into registers other than ra, trap tables of dead loops, chains of dependent exit ecalls. The static reading requires a fall-through edge after an ecall only when the analyzer itself claims a constant a7 other than 10/93; otherwise the machine's edge monitor decides.",
    design_ref="DESIGN.md §5 C03",
    note="Trusted: TLC, CfgRef.tla, harness projection (edges by Rc pointer identity). Exit ecalls taken from the analyzer's own a7 facts (C01 validates them). Domain: no indirect jumps but ret, no path running off the end of the file.",
    technique="TLA+ reference CFG (CfgRef) + TLC-simulated/enumerated flow programs replayed into the real pipeline + TLC trace validation of the recorded graph"),
 "C11": dict(
    category="model_checking",
    text="Same generated arrangements as C03 (several labels on one entry, interleaved bodies, shared tails, fall-through entries, recursion, calls from dead code, multiple returns). TLC validates the recorded function table against CfgRef: function entries are exactly the call targets; each body equals reachability from its entry over the recorded edges; per-node owner lists agree with the bodies; each exit is a return inside the body reached by every other return; node-in-many-functions is reported exactly for shared entries (sharing without a shared entry is a recorded finding). Also: Gen_Shared (functions sharing code in every layout), trap tables, chained exits.",
    design_ref="DESIGN.md §5 C11",
    note="Trusted: TLC, CfgRef.tla, harness projection. Alias labels on one instruction share the function. Interrupt-handler discovery is not generated by Gen_Flow.",
    technique="TLA+ reference function discovery/body definitions (CfgRef) + TLC-generated call-graph arrangements replayed into the real pipeline + TLC trace validation"),
 "C16": dict(
    category="model_checking",
    text="Same generator, including its ill-formed shapes (undefined labels in jumps/branches/calls/la, a duplicated label, labels at end of file, functions without return, returns outside functions, calls into data labels). TLC validates the recorded outcome: undefined/duplicate labels are detected and located on an occurrence of that label (slice of the file text), any other stop of the analysis is a specific error in the base file, never 'Unexpected error' / nil file. Also: the labels a statement names are read off the parsed statement itself (not the implementation's jumps_to / calls_to), jumps that link into other registers than ra, tables of dead loops (analysis must not give up with a generic error).",
    design_ref="DESIGN.md §5 C16",
    note="Trusted: TLC, Text.tla slices, harness projection. Single-file programs (visibility = attributed to the base file); multi-file visibility is C15/C18.",
    technique="TLA+ failure contract (Trace_Cfg!JudgeC16) + TLC-generated ill-formed programs replayed into the real pipeline + TLC trace validation"),
 "C01": dict(
    category="model_checking",
    text="Programs sampled by tlc -simulate from Gen_Values (alphabet covering every rule of the value analysis: sp arithmetic, word/byte spills and reloads, constant folding on boundary operands, copies, address loads, ecall results, calls to three convention-respecting callees incl. recursion, forward branches/merges) and Gen_Flow, plus repository and hand-written corpus programs, are analysed by the real pipeline; the recorded in/out register and stack claims are judged by TLC executing each program on the reference RV32IM machine (Machine.tla, call frames, byte-accurate little-endian memory) from 3 initial valuations x 2 environment-call outcomes, evaluating ClaimsTrue before and after every executed instruction. Also: Gen_FoldProg (every register-register and register-immediate operator on boundary operands, the folded result used as ecall number and argument; extreme pairs always, the rest rotating), signed/unsigned compare-with-zero branches in Gen_Values, Gen_Shared programs.",
    design_ref="DESIGN.md §5 C01",
    note="Trusted: TLC, ISA/Words/Machine.tla, harness projection. Judged claim kinds: constant, label address, entry value + constant. Executions leaving the supported subset stop being judged (never a violation). Bounded: sampled programs of <= ~25 instructions, fuel 160, recursion depth 6.",
    technique="TLA+ executable reference machine with claim monitor + TLC-simulated programs replayed into the real analysis + TLC validation of the recorded facts by execution"),
 "C02": dict(
    category="model_checking",
    text="Static: for every analysed program (same population as C01) TLC recomputes the least solution of the documented liveness equations (Dataflow!LiveLFP, Kleene iteration from empty sets over the recorded graph and function table) and compares every live_in/live_out set, every function's inferred arguments/returns and every unused-value warning with the recorded ones (missing = coverage defect, extra = not forced by the equations). Dynamic: the live monitor of Machine.tla flags any executed read of a register that was reported not-live at some executed instruction since its last definition, with calls/ecalls defining and reading registers as the convention says. Also: Gen_Shared programs (shared epilogues with own or shared returns, results read or not), Gen_Ecall. Arguments of an ecall whose number the analysis does not know, and programs that jump to a function entry, are recorded findings with their own keys.",
    design_ref="DESIGN.md §5 C02",
    note="Trusted: TLC, Dataflow.tla (transcription of the documented equations, incl. jump-to-function-label = call site), Machine.tla, harness projection. ecall signatures from the analyzer's a7 facts + documented table.",
    technique="TLA+ least-fixed-point reference (Dataflow!LiveLFP) + executable machine with live monitor + TLC-simulated programs replayed into the real analysis + TLC trace validation"),
 "C10": dict(
    category="model_checking",
    text="Programs from Gen_Values / Gen_Flow (tlc -simulate: shared code, several labels per entry, several returns, undefined-label sets), the corpus, hand-written order-sensitive programs and a three-file include program are linted R times in one process through RVParser::run (fresh UUIDs and hash seeds per parse) and P times per output mode (--json, --compact, --compact --all-files, --no-color, --yaml) in separate rva processes; TLC validates the recorded runs with Trace_Runs: all runs of a program identical (items, order, bytes) and no run with two diagnostics equal in kind, location, message and related information. Also: Gen_Shared programs, twin files (two included files holding code at identical line/column/offset), programs on which two lints or the two nodes of a two-node expansion find the same problem.",
    design_ref="DESIGN.md §5 C10",
    note="Trusted: TLC, harness projection. Detection of a hash-order dependence is probabilistic (R = 8|32 in-process runs, P = 4|8 processes per mode); every order dependence found on the pinned tree was repaired, so no known finding is flaky.",
    technique="TLA+ run-equality / no-duplicate contract (Trace_Runs) + TLC-simulated programs linted repeatedly in-process and in separate processes + TLC trace validation"),
 "C12": dict(
    category="model_checking",
    text="TLC enumerates every history of extra pass runs over {value analysis, ecall termination, liveness} of length 1..3 (Gen_Hist, 39 histories, exhaustive). For each program (Gen_Values / Gen_Flow simulation, corpus incl. nested loops, irreducible flow, recursion, many call sites) and each history the harness analyses a clone of the same parsed program, applies the history with the real passes and records the observables after every step plus the sweep counters from the rva_verif hooks. Trace_Stable is a stateful trace specification: `analysed` must reproduce the first analysis of the program, `extra(pass)` is accepted only as stuttering on nodes/edges/values/live sets/u_def/functions/lints, and every pass run must stay within 4N+3 sweeps (the limit PassLoop.tla establishes for the iteration scheme: 4N-1 is reached by chains of dead loops). The as-built layer is part of the check: PassLoop.tla (one action per critical section of AvailableValuePass::run - Visit, SweepEnd, Cut, Rerun) is model-checked exhaustively over all graphs with N<=3 (N<=4 thorough) for SweepBound, FixedPoint, Stable, AllVisited and termination, its two pre-repair variants must be refuted (negative controls), and step traces recorded from the real value and liveness pass loops (hooks pass_begin/visit/sweep_end) are validated by Trace_PassLoop against the same operators (PassOps.tla): a run that ends off the fixed point of the meet/join equation or a re-run that changes facts is a violation, any other departure is reported as SPEC-DRIFT. Pipeline.tla (EXTENDS PassLoop) models the rounds of value analysis and ecall termination in Manager::gen_full_cfg; TLC establishes over all configurations with N=3 that the finished facts are the fixed point of the finished graph and that edges stop at exits, and refutes the two fixed rounds of the pinned pipeline (negative control). Hangs (no result within the watchdog) are violations here too; twin-file programs, Gen_Shared programs and chains of dependent exit ecalls are part of the population.",
    design_ref="DESIGN.md §5 C12",
    note="Trusted: TLC, harness projection (canonical JSON per observable group), rva_verif sweep hooks. Lint lists are compared order-insensitively (order is C10's).",
    technique="TLA+ stateful trace specification (Trace_Stable: extra passes = stuttering) + TLC-enumerated pass histories replayed with the real passes + sweep-counter hooks"),
 "C19": dict(
    category="model_checking",
    text="TLC enumerates the whole value domain of the dump (Gen_Dump: nine value kinds and three memory-location kinds over boundary registers, offsets incl. i32::MIN/MAX, labels and CSR numbers, exhaustive); every value is serialized and reloaded through the real serde_yaml encoding and Trace_Dump validates reload = original and pairwise distinct text for distinct values. Programs (Gen_Values / Gen_Flow simulation, corpus, CSR programs) are dumped with CfgWrapper, reloaded and re-dumped (nothing lost), and all analysis results of a run that share a dump are compared group by group (nodes, edges, value facts, live sets, function annotations). Also: faithfulness of the program dump - the YAML text is decoded by a generic YAML reader (not the dump's own Deserialize) and every node's successors, predecessors, live sets, u_def and (function entry, function exit) pairs are compared by TLC with the analysis result it was written from; Gen_Shared programs (interleaved bodies sharing a non-returning block).",
    design_ref="DESIGN.md §5 C19",
    note="Trusted: TLC, harness (serde_yaml round trip through the public types). ParserNode equality is by unserialized id, so structural equality is judged through the re-dump.",
    technique="TLA+ encoding contract (Trace_Dump: reload identity + injectivity) + TLC-enumerated value domain replayed through the real serializer + TLC trace validation"),
 "C15": dict(
    category="model_checking",
    text="TLC samples include cuttings from Gen_Include (a segment of the program moved to f1.s, optionally a nested segment to f2.s and a later one to f3.s, every file with/without trailing newline; fault plans: missing file, unreadable file, self-inclusion, inclusion of the parent). Each tree is linted through the in-memory FileReader API (RVParser::run) and through rva on real directories (--json = all files; --compact = base file + hidden count); Trace_Include validates the recorded diagnostics against Include!Flatten: the multiset of (title, severity, file, line, columns) equals that of the flattened single file mapped back to its origins; for a faulty directive exactly one reader error sits on the directive's line and everything else equals the tree with that line blank. Also: the text channel under --all-files must show everything and announce no hidden diagnostics.",
    design_ref="DESIGN.md §5 C15",
    note="Trusted: TLC, Include.tla, harness MemReader (a correct reader reports already-read files), driver file construction. Parse errors are compared by (severity, file, line) only; reader error messages normalised to their kind.",
    technique="TLA+ textual-inclusion reference (Include!Flatten/Origin) + TLC-simulated include cuttings and reader faults replayed through library and CLI + TLC trace validation"),
 "C18": dict(
    category="model_checking",
    text="Mixed programs (parse errors + CFG errors + lints, tabs, CR LF, includes), Gen_Flow simulations, faulty files of Gen_Lines and the corpus are run through rva in eight flag combinations of --json/--compact/--no-color/--all-files and through RVParser::run. Trace_Chan is a stateful trace specification: per input all channels must project to the same (severity, title, file, line, columns) list for the same file selection, be sorted by position within each file, have non-empty titles, a hidden-diagnostics count equal to the non-base part, escape-free --no-color output, valid JSON of the documented shape unaffected by other flags, and every pretty excerpt must equal the trimmed source line with the caret run exactly under the reported columns; the severity of a kind is checked to be a function of the kind across the whole trace (state variable sev).",
    design_ref="DESIGN.md §5 C18",
    note="Trusted: TLC, driver parsing of the text channels (regular expressions) and Python's JSON parser. JSON has no file selection and is compared with the all-files result.",
    technique="TLA+ channel-agreement specification (Trace_Chan, stateful severity map) + real rva stdout in every mode recorded as traces + TLC trace validation"),
 "C13": dict(
    category="model_checking",
    text="TLC enumerates Gen_Rewrite exhaustively: all compositions of at most 2 (quick) / 4 (thorough) rewrites out of ten dimensions (separators, indentation, comments, blank lines, mnemonic case, numeric/ABI/fp register names, decimal/hex/binary/character immediates, label placement, omitted zero offset, pseudo-instruction vs official expansion), applied at every site or every other site of four base programs (clean and violating). Original and rewritten text are analysed by the real pipeline; Trace_Rel validates each pair: the parsed instruction sequences are equal node by node (pseudo-expansions by ISA!Equivalent on the value grid), and the multisets of (kind, instruction index, operand) of all parse errors, CFG errors and lints are equal. Mnemonic case is varied per letter (upper, capitalised, alternating, last letter only); eight abstract programs incl. an entry shared by two functions under two labels and memory accessed through saved / temporary base registers.",
    design_ref="DESIGN.md §5 C13",
    note="Trusted: TLC, ISA.tla, the renderer lib/absprog.py (its output is re-checked per pair for meaning preservation on the parsed nodes), harness projection.",
    technique="TLA+ relational trace specification (Trace_Rel: same meaning, same verdicts) + TLC-enumerated rewrite compositions rendered and replayed into the real pipeline"),
 "C14": dict(
    category="model_checking",
    text="TLC enumerates Gen_Rename: identity, every transposition and every rotation of the temporary class t0-t6 and of the saved class s0-s11 (each register of a class is moved), six label renaming schemes (suffix, leading underscore, digits, long names, cyclic permutation of the existing names), at most two of the three non-trivial at once, on four base programs. Trace_Rel validates each pair: instruction sequences equal after renaming, and the multiset of (kind, instruction index, operand) of the renamed program equals the original one with registers mapped through the permutation. Label schemes also include one that reverses the alphabetical order, double underscores around every name, and one label at a time called __return__ (the name the tool gives its synthetic jump to a function's exit); twelve abstract programs (see C13).",
    design_ref="DESIGN.md §5 C14",
    note="Trusted: TLC, renderer lib/absprog.py, harness projection. quick tier: 1500 renamings sampled by seed from the enumerated set; thorough: all.",
    technique="TLA+ relational trace specification (Trace_Rel: equivariance) + TLC-enumerated permutations/renamings replayed into the real pipeline"),
 "C04": dict(
    category="model_checking",
    text="tlc -simulate over Gen_Conform, a TLA+ generator of programs that conform by construction: leaf templates (loop, if-else, stack local, print ecall, two arguments), non-leaf templates (wrapper with a saved register, recursion, two calls with two saved registers), five frame layouts, call sequences of main, optional third function, explicit .data/.text; each program in three spellings. A prefix of the programs is confirmed on the reference machine (every execution ends in the exit ecall without leaving the convention, and raises no C01/C02/C03 monitor). Every program is linted by the real pipeline and Trace_Diag requires the diagnostic list (parse errors, CFG errors, lints) to be empty. Also: templates with a bottom-tested loop inside a frame, two returns with frame, environment-call wrappers (result handed back untouched; result register is also an argument: 9, 42); a small covering family (every template x every way its result is consumed) is run in full by every check; every program is also run with its saved and temporary registers rotated inside their class, with tabs and with numeric register names.",
    design_ref="DESIGN.md §5 C04",
    note="Trusted: TLC, Gen_Conform templates (conformance by construction, spot-confirmed dynamically), Machine.tla, harness projection. Bounded: programs of three or four functions of these shapes.",
    technique="TLA+ generator of conforming-by-construction programs (Gen_Conform) confirmed on the TLA+ reference machine + replay into the real pipeline + TLC trace validation (no diagnostics)"),
 "C05": dict(
    category="model_checking",
    text="Gen_Conform with WithInject = TRUE: on top of a conforming base program one tagged line is deleted, replaced or inserted according to 17 injection kinds (saved register / sp / ra not restored, temporary read after a call, never-assigned register in a function / in main, unused assignment, arithmetic write to zero, stack access at / above the entry sp, instruction in .data, ecall with unknown number, unreachable code after ret / after a jump, jump into a function, fall-through into a function, function as first line); the generator states the expected diagnostic kinds, line and register operand by construction. The real pipeline lints each injected program and Trace_Diag requires a diagnostic of an expected kind on that line (and operand). Also: the covering family with every injection kind (all three variants for the stack kinds: store of a register, store of zero, sub-word store / load), injections on the path to the later of two returns.",
    design_ref="DESIGN.md §5 C05",
    note="Trusted: TLC, the injectors' expectations (stated independently of the lints), harness projection. Additional diagnostics are allowed.",
    technique="TLA+ violation injectors with by-construction expectations (Gen_Conform) + replay into the real pipeline + TLC trace validation of kind and location"),
 "C06": dict(
    category="exploration",
    text="Exploration of a structured, bounded input model, judged by Trace_Robust (the only accepted run is start -> diagnostics -> end; panic, watchdog timeout, crash, non-zero exit are events no action matches): all strings over a 26-symbol lexer alphabet (quotes, backslash, u, digits, '#', '.', ':', parentheses, '-', ',', blank, tab, CR, LF, NUL, 2-/3-/4-byte code points, '@', '+') up to length 3|4, exhaustive from Gen_Strings; boundary-grid programs of Gen_Overflow (28 shapes of folding, immediates, sp arithmetic, offsets, data, CSR); every include graph over three files incl. self loops, cycles and missing files (Gen_IncGraph), also with a reader that never reports cycles; Gen_Values / Gen_Flow simulations; token- and line-level mutations and truncations of corpus programs; scaled programs for the sweep bound 4N+3 (rva_verif counters); the rva binary in 10 output modes (debug; release in the thorough tier). Also: long runs (30-200 kB) of every alphabet symbol, statement line and symbol pair through the harness and through the rva binary (its own stack), an alphabet with multi-byte blanks (28 symbols), text with multi-byte characters in front of a reported position through the pretty printer, sp moved close to i32::MAX followed by word and sub-word stores and calls.",
    design_ref="DESIGN.md §5 C06",
    note="Crash-freedom over arbitrary Unicode is a fuzzing question; this check decides it only for the input model above (stated in the evidence). Debug profile with overflow checks for the library entry point. Trusted: TLC generators, harness watchdog (10 s), driver.",
    technique="TLC-enumerated adversarial input model (strings, boundary programs, include graphs) replayed under a watchdog + TLA+ totality trace specification (Trace_Robust) + sweep-counter hooks"),
}
PENDING = "check not built yet in this round (planned, see DESIGN.md §5); not claimed until its check is green on the unchanged tree"
m = {
 "version": 1,
 "setup_cmd": "cd /verif && python3 lib/setup.py",
 "hooks": {
   "guard": "rva_verif",
   "enable": "RUSTFLAGS='--cfg rva_verif --check-cfg cfg(rva_verif)' (set by /verif/harness/.cargo/config.toml and lib/vlib.py build_cli)",
   "baseline_off_cmd": "cd /repo && cargo test --workspace --no-fail-fast --offline",
   "source_commits": ["e4948f8", "13ffbe8", "6c96580"],
   "add_only": True,
 },
 "engines": [
   {"name": "tlc", "path": "/usr/local/bin/tlc", "serves_properties": sorted(CHECKS), "kind_free_text": "TLC 1.8.0 explicit-state model checker: generator specs (spec->impl) and trace-validation specs (impl->spec) under /verif/spec"},
   {"name": "rvh", "path": "/verif/harness", "serves_properties": sorted(CHECKS), "kind_free_text": "Rust conformance harness (path dependency on /repo/riscv_analysis, built from the working tree with --cfg rva_verif): replays TLC-generated cases into the real code and records ndjson traces"},
 ],
 "checks": [],
 "not_applicable": [],
 "notes": "Driver: ./check <id> [--tier quick|thorough] [--replay path]; exit 0 ok / 1 VIOLATION / 2 tool error. known_findings.json lists recorded and fixed defects. DESIGN.md explains the approach.",
}
for p in props:
    pid = p["id"]
    if pid in CHECKS:
        c = CHECKS[pid]
        m["checks"].append({
          "property_id": pid,
          "quick_cmd": f"./check {pid} --tier quick",
          "thorough_cmd": f"./check {pid} --tier thorough",
          "evidence_file": f"/verif/evidence/{pid}.json",
          "replay_cmd_template": f"./check {pid} --replay {{path}}",
          "engine": "tlc",
          "level_claimed": {"category": c["category"], "text": c["text"], "design_ref": c["design_ref"]},
          "level_note": c["note"],
          "technique": c["technique"],
        })
    else:
        m["not_applicable"].append({"property_id": pid, "reason": PENDING})
json.dump(m, open(os.path.join(HERE, "MANIFEST.json"), "w"), indent=1)
print("checks:", [c["property_id"] for c in m["checks"]])
