"""C08 — instruction decoding, pseudo-expansion and constant folding follow RV32IM."""
import os
from vlib import *

PID = "C08"
OPS = ["add", "and", "or", "sll", "slt", "sltu", "sra", "srl", "sub", "xor", "mul", "mulh",
       "mulhsu", "mulhu", "div", "divu", "rem", "remu"]


def rand_word(r):
    c = r.random()
    if c < 0.2:
        return r.choice([0, 1, -1, 2, -2, 31, 32, 33, 2**31 - 1, -2**31, 2**31 - 2, -2**31 + 1, 65535, 65536, -65536])
    if c < 0.4:
        return r.randint(-40, 40)
    if c < 0.6:
        return (1 << r.randint(0, 31)) - (1 << 32 if r.random() < 0.5 else 0) if r.random() < 0.5 else -(1 << r.randint(0, 31))
    return r.randint(-2**31, 2**31 - 1)


def clamp(x):
    return max(-2**31, min(2**31 - 1, x))


def run(tier, replay=None):
    out = Outcome(PID, tier)
    wd = os.path.join(WORK, PID)
    rvh = build_harness()
    if replay:
        w = json.load(open(replay))["witness"]
        cases = [w["case"]] if "case" in w else []
        log("replaying", replay)
    # ---- constant folding: exhaustive boundary grid (spec -> impl) + random pairs (impl -> spec)
    fcases, gres = tlc_generate("Gen_Fold", coverage=True)
    out.add_tlc(gres)
    n_rand = 1000 if tier == "quick" else 60000
    r = rng("fold")
    for op in OPS:
        pairs = [[clamp(rand_word(r)), clamp(rand_word(r))] for _ in range(n_rand)]
        for k in range(0, n_rand, 500):
            fcases.append({"mode": "fold", "op": op, "pairs": pairs[k:k + 500], "random": True})
    for i, c in enumerate(fcases):
        c["id"] = i + 1
    tp, evs = run_harness_par(rvh, fcases, wd, "fold")
    v, acc, res = tlc_validate("Trace_Fold", tp, heap="8g")
    out.add_tlc(res)
    if not acc:
        raise ToolError("fold trace not consumed")
    byid = {c["id"]: {"mode": "fold", "op": c["op"]} for c in fcases}
    for x in v:
        x["case"] = {"id": x["id"], "mode": "fold", "op": byid[x["id"]]["op"], "pairs": [[x["x"], x["y"]]]}
    out.add_verdicts(v)
    n_pairs = sum(len(c["pairs"]) for c in fcases)
    out.cov["traces_validated_against_impl"] += len(evs)
    out.sample({"kind": "fold", "op": fcases[0]["op"], "pairs": fcases[0]["pairs"][:3]})
    out.sample({"kind": "fold-random", "op": fcases[-1]["op"], "pairs": fcases[-1]["pairs"][:3]})

    # ---- constant folding as the analysis applies it (operator table, immediate forms, the zero-register short cuts):
    # one-instruction programs from Gen_FoldProg, the claims of the value analysis judged by the reference machine
    if not replay or (cases and cases[0].get("mode") == "foldprog"):
        import props.execcommon as xc
        if replay:
            ftexts, fops = [cases[0]["text"]], [cases[0]["op"]]
        else:
            rf, gres = tlc_generate("Gen_FoldProg")
            out.add_tlc(gres)
            ext = {0, -1, 1, 2147483647, -2147483648}
            pick = [c for i, c in enumerate(rf) if tier == "thorough" or c["op"].startswith("z:")
                    or (c["x"] in ext and c["y"] in ext) or i % 4 == seed() % 4]
            ftexts, fops = [c["text"] for c in pick], [c["op"] for c in pick]
        fevs = xc.observe(rvh, ftexts, wd, "foldprog")
        fv, ress = validate_chunks("Trace_Exec", fevs, wd, "foldprog.chunk", chunk=150, heap="8g", timeout=3000)
        for rr in ress:
            out.add_tlc(rr)
        for x in fv:
            if x["key"].startswith("C01:"):      # a claim of the value analysis that the executed instruction refutes
                i = x["id"] - 1
                out.add_verdicts([{"id": x["id"], "key": "C08:fold-in-a-program:" + fops[i].replace("z:", "zero-operand:") + ":" + x["key"][4:],
                                   "case": {"mode": "foldprog", "text": ftexts[i], "op": fops[i]}}])
        out.cov["traces_validated_against_impl"] += len(fevs)
        out.sample({"kind": "fold-in-a-program", "text": ftexts[0]})

    # ---- decoding: the whole decode table (spec -> impl), judged by the reference (impl -> spec)
    dcases, gres = tlc_generate("Gen_Decode", coverage=True)
    out.add_tlc(gres)
    hc = [{"id": i + 1, "mode": "observe", "text": c["text"] + "\nL: nop\n", "want": ["nodes"]}
          for i, c in enumerate(dcases)]
    tp, evs = run_harness_par(rvh, hc, wd, "decode")
    for e, c in zip(evs, dcases):
        e["case"] = c
    write_ndjson(tp, evs)
    v, acc, res = tlc_validate("Trace_Decode", tp)
    out.add_tlc(res)
    if not acc:
        raise ToolError("decode trace not consumed")
    for x in v:
        x["case"] = dcases[x["id"] - 1]
    out.add_verdicts(v)
    out.cov["traces_validated_against_impl"] += len(evs)
    # csrw family: the manual (csr, rs) and RARS (rs, csr) operand orders are both
    # accepted by the oracle, but at least one of them must be accepted by the parser
    for mn in ("csrw", "csrs", "csrc"):
        ok = any(c["mn"] == mn and e.get("ev") == "obs" and not e.get("errors") and len(e.get("nodes", [])) > 3
                 for e, c in zip(evs, dcases))
        if not ok:
            out.add_verdicts([{"key": f"C08:decode:{mn}:no-order-accepted", "id": 0}])
    mns = sorted({c["mn"] for c in dcases})
    out.sample({"kind": "decode", "text": dcases[0]["text"], "mn": dcases[0]["mn"], "form": dcases[0]["form"]})
    out.sample({"kind": "decode", "text": dcases[len(dcases) // 2]["text"]})
    out.assumptions += [
        "Words.tla / ISA.tla are a faithful transcription of RV32IM (cross-checked against Python big-int arithmetic in selftest)",
        "csrw/csrs/csrc: both the manual's (csr, rs) and RARS' (rs, csr) operand order are accepted",
        "RV64-only mnemonics the parser accepts (addw, lwu, ...) are judged structurally only",
        "memory reads are uninterpreted (MemVal), label addresses symbolic (AddrOf)",
    ]
    return out.finish(extra_cov={
        "exhaustive": True,
        "fold_pairs": n_pairs, "fold_random_pairs_per_op": n_rand,
        "decode_cases": len(dcases), "decode_mnemonics": len(mns),
        "evaluations": n_pairs + len(dcases),
        "distinct_nontrivial": len({(c["mn"], c["form"]) for c in dcases}) + len(OPS) * 33 * 33,
        "rule": "fold: 18 operators x 33x33 boundary grid (exhaustive, from Gen_Fold) + random pairs; decode: every (mnemonic, form, operand choice, spelling) terminal state of Gen_Decode; distinct = (mnemonic, form) pairs + grid points",
    })
