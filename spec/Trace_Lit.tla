----------------------------- MODULE Trace_Lit -----------------------------
(* impl -> spec: what the real parser made of a literal is validated against *)
(* Text!Denote (C17).  Reading of "fits in 32 bits" (weakest defensible):    *)
(*  - a literal denoting an integer in -2^31 .. 2^31-1 must be accepted and  *)
(*    read as that word, in every notation;                                  *)
(*  - one denoting 2^31 .. 2^32-1 may be accepted (as the same 32 bits) or   *)
(*    rejected;                                                              *)
(*  - anything else (|v| too large, malformed) must be rejected by a parse   *)
(*    error located on the literal;                                          *)
(*  - lui takes 0 .. 2^20-1 and puts it in bits 31..12;                      *)
(*  - never a panic.                                                         *)
EXTENDS Text, Words, Json, IOUtils
Rec == ndJsonDeserialize(IOEnv.TRACE)
VARIABLES l
vars == <<l>>

MagClass(d) ==
  IF ~d.ok THEN "malformed"
  ELSE IF d.mag[1] < 32768 THEN "lt2^31"
  ELSE IF d.mag = <<32768, 0>> THEN "eq2^31"
  ELSE IF d.mag[1] < 65536 THEN "2^31..2^32"
  ELSE "ge2^32"

ObsValue(e, c) ==
  LET n == e.nodes[2] IN
  CASE c.ctx \in {"li", "addi", "lw", "lui"} -> n.imm
    [] c.ctx = "word" -> (IF Len(n.vals) >= 1 THEN n.vals[1] ELSE -999)
    [] c.ctx = "csr"  -> n.csr

Key(c, d, what) ==
  "C17:" \o c.ctx \o ":" \o c.notation \o ":" \o (IF c.neg THEN "neg" ELSE "pos") \o ":" \o MagClass(d) \o ":" \o what

Judge(e) ==
  LET c == e.case
      d == IF c.kind = "char" THEN [ok |-> TRUE, neg |-> FALSE, mag |-> <<c.value \div 65536, c.value % 65536>>]
           ELSE IF c.kind = "badchar" THEN [ok |-> FALSE, neg |-> FALSE, mag |-> <<0, 0>>]      \* not in the grammar (Gen_CharLit)
           ELSE Denote(c.cps)
  IN
  IF e.ev # "obs" THEN << Key(c, d, e.ev) >>
  ELSE
  LET accepted == Len(e.errors) = 0 /\ Len(e.nodes) >= 2 /\ e.nodes[2].k \notin {"Label"}
                  /\ (c.ctx = "word" => Len(e.nodes[2].vals) = 1)
      \* a malformed character literal is not one token: the error must start inside the text of the literal
      \* (how far its range extends is C09's business)
      onlit == IF c.kind = "badchar"
                 THEN Len(e.errors) >= 1 /\ e.errors[1].r0 >= c.off /\ e.errors[1].r0 <= c.off + Len(c.cps) - 1
                 ELSE Len(e.errors) >= 1 /\ e.errors[1].r0 = c.off /\ e.errors[1].r1 = c.off + Len(c.cps) - 1
      must_reject == ~d.ok \/ ~In32Bits(d)
                     \/ (c.ctx = "lui" /\ ~d.neg /\ (d.mag[1] >= 16))
      must_accept == d.ok /\ InInt32(d) /\ (c.ctx = "lui" => (~d.neg /\ d.mag[1] < 16))
                     /\ (c.ctx = "csr" => (~d.neg /\ d.mag[1] = 0 /\ d.mag[2] < 4096))
      \* a CSR number beyond the 12-bit field may be accepted or rejected, but it is never read as another number
      \* (values that do not fit the trace's integers - negative or >= 2^31 - are left alone)
      judged == ~(c.ctx = "lui" /\ d.ok /\ d.neg)
                /\ ~(c.ctx = "csr" /\ ~must_accept /\ ~(d.ok /\ ~d.neg /\ d.mag[1] < 32768))
      expect == IF c.ctx = "lui" THEN SllW(WordOf(d), 12) ELSE WordOf(d)
  IN
  IF ~judged THEN <<>>
  ELSE IF accepted
    THEN (IF must_reject THEN << Key(c, d, "accepted-but-must-reject") >>
          ELSE IF ObsValue(e, c) # expect THEN << Key(c, d, "wrong-value") >> ELSE <<>>)
    ELSE (IF must_accept THEN << Key(c, d, "rejected-but-in-range") >>
          ELSE IF ~onlit THEN << Key(c, d, "error-not-on-literal") >> ELSE <<>>)

RECURSIVE Report(_, _, _)
Report(e, bad, i) ==
  IF i > Len(bad) THEN TRUE
  ELSE PrintT("VERDICT " \o ToJson([id |-> e.id, key |-> bad[i], line |-> e.case.line])) /\ Report(e, bad, i + 1)

\* the generator's own reading of the magnitude must agree with Denote (spec self-consistency)
SelfOk(e) ==
  LET c == e.case IN
  c.kind = "num" /\ c.gen =>
    LET d == Denote(c.cps) IN d.ok /\ d.mag = <<c.hi, c.lo>> /\ (d.neg = (c.neg /\ d.mag # <<0, 0>>))

Init == l = 1
Next == /\ l <= Len(Rec)
        /\ (IF SelfOk(Rec[l]) THEN TRUE ELSE PrintT("SPEC-INCONSISTENT " \o ToJson(Rec[l].case)))
        /\ Report(Rec[l], Judge(Rec[l]), 1)
        /\ l' = l + 1
Spec == Init /\ [][Next]_vars
Accepted == IF TLCGet("stats").diameter = Len(Rec) + 1 THEN TRUE
            ELSE PrintT("TRACE-NOT-CONSUMED") /\ FALSE
=============================================================================
