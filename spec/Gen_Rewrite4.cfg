CONSTANTS MaxK = 4
          NP = 10
INIT Init
NEXT Next
CHECK_DEADLOCK FALSE
