------------------------------- MODULE Words -------------------------------
(***************************************************************************)
(* RV32 machine words and the RV32IM integer operations, as a reference.  *)
(*                                                                         *)
(* A word is a TLC integer in  -2^31 .. 2^31-1  (two's complement reading  *)
(* of the 32 bits).  TLC integers are Java ints and overflow is an error,  *)
(* so everything is computed on 16-bit limbs and no intermediate leaves    *)
(* the Java int range.                                                     *)
(***************************************************************************)
EXTENDS Integers, Bitwise

MinW == -2147483647 - 1
MaxW == 2147483647
IsWord(x) == x \in Int /\ x >= MinW /\ x <= MaxW

K16 == 65536

\* limbs of a word: Lo in 0..65535, UHi in 0..65535 (unsigned high half)
Lo(x)  == x % K16
UHi(x) == (x \div K16) % K16

\* word from unsigned limbs
Mk(h, l) == IF h >= 32768 THEN (h - K16) * K16 + l ELSE h * K16 + l

Pow2(n) == \* n in 0..30
  CASE n = 0 -> 1 [] n = 1 -> 2 [] n = 2 -> 4 [] n = 3 -> 8 [] n = 4 -> 16
    [] n = 5 -> 32 [] n = 6 -> 64 [] n = 7 -> 128 [] n = 8 -> 256 [] n = 9 -> 512
    [] n = 10 -> 1024 [] n = 11 -> 2048 [] n = 12 -> 4096 [] n = 13 -> 8192
    [] n = 14 -> 16384 [] n = 15 -> 32768 [] n = 16 -> 65536 [] n = 17 -> 131072
    [] n = 18 -> 262144 [] n = 19 -> 524288 [] n = 20 -> 1048576
    [] n = 21 -> 2097152 [] n = 22 -> 4194304 [] n = 23 -> 8388608
    [] n = 24 -> 16777216 [] n = 25 -> 33554432 [] n = 26 -> 67108864
    [] n = 27 -> 134217728 [] n = 28 -> 268435456 [] n = 29 -> 536870912
    [] n = 30 -> 1073741824

---------------------------------------------------------------------------
\* addition, subtraction (wrap-around)
AddW(x, y) ==
  LET lo == Lo(x) + Lo(y)
      hi == (UHi(x) + UHi(y) + (lo \div K16)) % K16
  IN  Mk(hi, lo % K16)

NotW(x) == (-1) - x
NegW(x) == AddW(NotW(x), 1)
SubW(x, y) == AddW(x, NegW(y))

\* bitwise, limb by limb (Bitwise!& etc. are defined on naturals)
AndW(x, y) == Mk(UHi(x) & UHi(y), Lo(x) & Lo(y))
OrW(x, y)  == Mk(UHi(x) | UHi(y), Lo(x) | Lo(y))
XorW(x, y) == Mk(UHi(x) ^^ UHi(y), Lo(x) ^^ Lo(y))

\* shift amount: low five bits of the second operand
Shamt(y) == y % 32

SllW(x, y) ==
  LET s == Shamt(y) h == UHi(x) l == Lo(x) IN
  IF s >= 16
    THEN Mk((l * Pow2(s - 16)) % K16, 0)
    ELSE Mk((((h * Pow2(s)) % K16) + ((l * Pow2(s)) \div K16)) % K16, (l * Pow2(s)) % K16)

SrlW(x, y) ==
  LET s == Shamt(y) h == UHi(x) l == Lo(x) IN
  IF s >= 16
    THEN Mk(0, h \div Pow2(s - 16))
    ELSE Mk(h \div Pow2(s), (l \div Pow2(s)) + (h % Pow2(s)) * Pow2(16 - s))

SraW(x, y) ==
  LET s == Shamt(y) IN
  IF s = 31 THEN (IF x < 0 THEN -1 ELSE 0) ELSE x \div Pow2(s)

SltW(x, y)  == IF x < y THEN 1 ELSE 0
LtU(x, y)   == \/ UHi(x) < UHi(y)
               \/ (UHi(x) = UHi(y) /\ Lo(x) < Lo(y))
SltuW(x, y) == IF LtU(x, y) THEN 1 ELSE 0

---------------------------------------------------------------------------
\* 16 x 16 -> 32 bit unsigned product as a pair <<hi16, lo16>>
Mul16(a, b) ==
  LET p1 == a * (b \div 256)       \* < 2^24
      p0 == a * (b % 256)          \* < 2^24
      t  == (p1 % 256) * 256 + p0  \* < 2^16 + 2^24
  IN  << (p1 \div 256) + (t \div K16), t % K16 >>

\* 32 x 32 -> 64 bit unsigned product as four limbs <<l3, l2, l1, l0>>
MulLimbs(x, y) ==
  LET xh == UHi(x) xl == Lo(x) yh == UHi(y) yl == Lo(y)
      ll == Mul16(xl, yl) lh == Mul16(xl, yh)
      hl == Mul16(xh, yl) hh == Mul16(xh, yh)
      s1 == ll[1] + lh[2] + hl[2]
      s2 == lh[1] + hl[1] + hh[2] + (s1 \div K16)
      s3 == hh[1] + (s2 \div K16)
  IN  << s3 % K16, s2 % K16, s1 % K16, ll[2] >>

MulW(x, y)   == LET m == MulLimbs(x, y) IN Mk(m[3], m[4])
MulhuW(x, y) == LET m == MulLimbs(x, y) IN Mk(m[1], m[2])
\* signed x signed: mulhu - (x<0 ? y : 0) - (y<0 ? x : 0)
MulhW(x, y) ==
  LET u == MulhuW(x, y)
      a == IF x < 0 THEN SubW(u, y) ELSE u
  IN  IF y < 0 THEN SubW(a, x) ELSE a
\* signed x unsigned
MulhsuW(x, y) == LET u == MulhuW(x, y) IN IF x < 0 THEN SubW(u, y) ELSE u

---------------------------------------------------------------------------
\* truncating signed quotient for y > 0
TruncDivPos(x, y) == IF x >= 0 THEN x \div y ELSE (x + y - 1) \div y

DivW(x, y) ==
  IF y = 0 THEN -1
  ELSE IF x = MinW /\ y = -1 THEN MinW
  ELSE IF y = MinW THEN (IF x = MinW THEN 1 ELSE 0)
  ELSE IF y > 0 THEN TruncDivPos(x, y)
  ELSE 0 - TruncDivPos(x, 0 - y)

RemW(x, y) ==
  IF y = 0 THEN x
  ELSE IF x = MinW /\ y = -1 THEN 0
  ELSE x - DivW(x, y) * y

\* unsigned division (Hacker's Delight 9-3 on signed machine arithmetic)
DivuW(x, y) ==
  IF y = 0 THEN -1
  ELSE IF y < 0 THEN (IF LtU(x, y) THEN 0 ELSE 1)
  ELSE IF x >= 0 THEN x \div y
  ELSE LET half == SrlW(x, 1)                 \* 0 .. 2^31-1
           q0   == half \div y
           q    == AddW(q0, q0)
           r    == SubW(x, MulW(q, y))
       IN  IF LtU(r, y) THEN q ELSE AddW(q, 1)

RemuW(x, y) == IF y = 0 THEN x ELSE SubW(x, MulW(DivuW(x, y), y))

---------------------------------------------------------------------------
\* the eighteen folded operators by name (names of `MathOp`)
FoldOps == {"add", "and", "or", "sll", "slt", "sltu", "sra", "srl", "sub", "xor",
            "mul", "mulh", "mulhsu", "mulhu", "div", "divu", "rem", "remu"}

Fold(op, x, y) ==
  CASE op = "add" -> AddW(x, y)   [] op = "sub" -> SubW(x, y)
    [] op = "and" -> AndW(x, y)   [] op = "or" -> OrW(x, y)   [] op = "xor" -> XorW(x, y)
    [] op = "sll" -> SllW(x, y)   [] op = "srl" -> SrlW(x, y) [] op = "sra" -> SraW(x, y)
    [] op = "slt" -> SltW(x, y)   [] op = "sltu" -> SltuW(x, y)
    [] op = "mul" -> MulW(x, y)   [] op = "mulh" -> MulhW(x, y)
    [] op = "mulhsu" -> MulhsuW(x, y) [] op = "mulhu" -> MulhuW(x, y)
    [] op = "div" -> DivW(x, y)   [] op = "divu" -> DivuW(x, y)
    [] op = "rem" -> RemW(x, y)   [] op = "remu" -> RemuW(x, y)

\* sign extension of the low n bits (n in 1..31), used for lb/lh and immediates
Sext(x, n) ==
  LET m == x % Pow2(n) IN IF m >= Pow2(n - 1) THEN m - Pow2(n) ELSE m

\* boundary grid used by the exhaustive configurations
Boundary == { MinW, MinW + 1, -65537, -65536, -32769, -32768, -2049, -2048,
              -33, -32, -31, -2, -1, 0, 1, 2, 5, 31, 32, 33, 40, 63, 64,
              2047, 2048, 32767, 32768, 65535, 65536, 65537,
              1073741824, MaxW - 1, MaxW }
=============================================================================
