//! Observation of the implementation: one function per harness mode.
use crate::proj::*;
use crate::reader::MemReader;
use riscv_analysis::analysis::{AvailableValuePass, LivenessPass};
use riscv_analysis::cfg::{Cfg, CfgWrapper, MathOp};
use riscv_analysis::gen::EcallTerminationPass;
use riscv_analysis::parser::{LexError, Lexer, ParserNode, RVParser};
use riscv_analysis::passes::{DiagnosticItem, DiagnosticManager, GenerationPass, Manager};
use serde_json::{json, Map, Value};
use std::collections::HashMap;
use uuid::Uuid;

pub fn dispatch(case: &Value) -> Value {
    match case["mode"].as_str().unwrap_or("") {
        "fold" => fold(case),
        "lex" => lex(case),
        "observe" => observe(case),
        "yamlval" => crate::obs::yaml_values(case),
        "stable" => stable(case),
        "runs" => runs(case),
        "steps" => steps(case),
        "parse" => parse_steps(case),
        m => json!({"ev": "harness-error", "msg": format!("unknown mode {m}")}),
    }
}

fn math_op(name: &str) -> Option<MathOp> {
    Some(match name {
        "add" => MathOp::Add,
        "and" => MathOp::And,
        "or" => MathOp::Or,
        "sll" => MathOp::Sll,
        "slt" => MathOp::Slt,
        "sltu" => MathOp::Sltu,
        "sra" => MathOp::Sra,
        "srl" => MathOp::Srl,
        "sub" => MathOp::Sub,
        "xor" => MathOp::Xor,
        "mul" => MathOp::Mul,
        "mulh" => MathOp::Mulh,
        "mulhsu" => MathOp::Mulhsu,
        "mulhu" => MathOp::Mulhu,
        "div" => MathOp::Div,
        "divu" => MathOp::Divu,
        "rem" => MathOp::Rem,
        "remu" => MathOp::Remu,
        _ => return None,
    })
}

/// C08: `MathOp::operate(x, y)` for a batch of pairs.  Each pair is evaluated
/// under its own catch_unwind so that one panic does not hide the others.
fn fold(case: &Value) -> Value {
    let op_name = case["op"].as_str().unwrap_or("");
    let Some(op) = math_op(op_name) else {
        return json!({"ev": "harness-error", "msg": "unknown op"});
    };
    let mut res = vec![];
    for p in case["pairs"].as_array().cloned().unwrap_or_default() {
        let x = p[0].as_i64().unwrap_or(0) as i32;
        let y = p[1].as_i64().unwrap_or(0) as i32;
        let r = std::panic::catch_unwind(std::panic::AssertUnwindSafe(|| op.operate(x, y)));
        match r {
            Ok(v) => res.push(json!({"x": x, "y": y, "ok": true, "r": v})),
            Err(_) => res.push(json!({"x": x, "y": y, "ok": false, "r": 0})),
        }
    }
    json!({"ev": "fold", "op": op_name, "res": res})
}

fn lex_text(text: &str, file: i64) -> (Vec<Value>, Value) {
    let id = Uuid::new_v4();
    let lexer = Lexer::new(text, id);
    let f = move |_u: Uuid| file;
    let mut toks = vec![];
    let mut end = json!("eof");
    let mut count = 0usize;
    for item in lexer {
        count += 1;
        if count > 200_000 {
            end = json!("runaway");
            break;
        }
        match item {
            Ok(t) => toks.push(token_json(&t, &f)),
            Err(e) => {
                let (kind, tok) = match &e {
                    LexError::InvalidString(t, k) => (format!("InvalidString:{:?}", k.kind), Some(t)),
                    LexError::Expected(_, t) => ("Expected".to_string(), Some(t)),
                    LexError::UnexpectedToken(t) => ("UnexpectedToken".to_string(), Some(t)),
                    _ => ("Other".to_string(), None),
                };
                let mut v = tok.map_or(json!({}), |t| token_json(t, &f));
                v["k"] = json!("Error");
                v["err"] = json!(kind);
                toks.push(v);
            }
        }
    }
    (toks, end)
}

/// Tokens of a text as produced by `Lexer` alone.
fn lex(case: &Value) -> Value {
    let text = case["text"].as_str().unwrap_or("");
    let (toks, end) = lex_text(text, 1);
    json!({"ev": "lex", "text": text_cps(text), "toks": toks, "end": end})
}

fn files_of(case: &Value) -> (HashMap<String, String>, String) {
    let mut files = HashMap::new();
    if let Some(o) = case["files"].as_object() {
        for (k, v) in o {
            files.insert(k.clone(), v.as_str().unwrap_or("").to_string());
        }
    }
    let base = case["base"].as_str().unwrap_or("main.s").to_string();
    if let Some(t) = case["text"].as_str() {
        files.insert(base.clone(), t.to_string());
    }
    (files, base)
}

fn has(case: &Value, what: &str) -> bool {
    case["want"]
        .as_array()
        .is_some_and(|a| a.iter().any(|x| x.as_str() == Some(what)))
}

fn run_lints(cfg: &Cfg) -> DiagnosticManager {
    let mut errs = DiagnosticManager::new();
    Manager::run_diagnostics(cfg, &mut errs);
    errs
}

/// General observation: parse (with an in-memory reader), build the full
/// CFG, run lints; project whatever `want` lists.
pub fn observe(case: &Value) -> Value {
    let (files, base) = files_of(case);
    let mut reader = MemReader::new(files.clone());
    if let Some(o) = case["faults"].as_object() {
        for (k, v) in o {
            reader
                .faults
                .insert(k.clone(), v.as_str().unwrap_or("").to_string());
        }
    }
    reader.no_cycle_detection = case["no_cycle_detection"].as_bool().unwrap_or(false);
    let mut out = Map::new();
    out.insert("ev".into(), json!("obs"));

    let mut parser = RVParser::new(reader);
    let (nodes, errors) = parser.parse_from_file(&base, false);

    {
        let ff = files_fn(&parser.reader);
        if has(case, "files") {
            let mut fl = vec![];
            for (_, name) in &parser.reader.order {
                let t = files.get(name).cloned().unwrap_or_default();
                fl.push(json!({"name": name, "text": text_cps(&t)}));
            }
            out.insert("files".into(), Value::Array(fl));
        }
        if has(case, "toks") {
            let mut all = vec![];
            for (k, (_, name)) in parser.reader.order.iter().enumerate() {
                let t = files.get(name).cloned().unwrap_or_default();
                let (toks, _) = lex_text(&t, k as i64 + 1);
                all.push(Value::Array(toks));
            }
            out.insert("toks".into(), Value::Array(all));
        }
        if has(case, "nodes") {
            out.insert(
                "nodes".into(),
                Value::Array(nodes.iter().map(|n| node_json(n, &ff)).collect()),
            );
        }
        if has(case, "errors") || has(case, "nodes") {
            out.insert(
                "errors".into(),
                Value::Array(errors.iter().map(|e| parse_error_json(e, &ff)).collect()),
            );
        }
    }
    out.insert("nnodes".into(), json!(nodes.len()));
    out.insert("nerrors".into(), json!(errors.len()));

    let want_cfg = has(case, "cfg");
    let want_lints = has(case, "lints");
    let want_yaml = has(case, "yaml");
    let history: Vec<String> = case["history"]
        .as_array()
        .map(|a| {
            a.iter()
                .map(|x| x.as_str().unwrap_or("").to_string())
                .collect()
        })
        .unwrap_or_default();
    if want_cfg || want_lints || want_yaml || !history.is_empty() {
        let nodes2: Vec<ParserNode> = nodes.clone();
        match Manager::gen_full_cfg(nodes2) {
            Ok(mut cfg) => {
                out.insert("cfgok".into(), json!(true));
                out.insert("cfgerr".into(), json!({}));
                let ff = files_fn(&parser.reader);
                if want_cfg {
                    out.insert("cfg".into(), cfg_json(&cfg, &ff));
                }
                if want_lints {
                    out.insert("lints".into(), lint_json(&run_lints(&cfg), &ff));
                }
                if want_yaml {
                    let w = CfgWrapper::from(&cfg);
                    match serde_yaml::to_string(&w) {
                        Ok(y) => {
                            let back: Result<CfgWrapper, _> = serde_yaml::from_str(&y);
                            // ParserNode equality is by (unserialized) id, so compare the
                            // reloaded structure through its own dump: nothing may be lost
                            let (ok, msg) = match back {
                                Ok(b) => match serde_yaml::to_string(&b) {
                                    Ok(y2) => (y2 == y, String::new()),
                                    Err(e) => (false, e.to_string()),
                                },
                                Err(e) => (false, e.to_string()),
                            };
                            // the text decoded by a generic YAML reader (not the dump's own
                            // Deserialize): the plain index / register lists of every node
                            let mut ydata = vec![];
                            if let Ok(serde_yaml::Value::Sequence(items)) = serde_yaml::from_str::<serde_yaml::Value>(&y) {
                                for it in items {
                                    let mut rec = Map::new();
                                    for key in ["nexts", "prevs", "live_in", "live_out", "u_def", "func_entry", "func_exit"] {
                                        let list: Vec<i64> = it
                                            .get(key)
                                            .and_then(|v| v.as_sequence())
                                            .map(|s| s.iter().filter_map(serde_yaml::Value::as_i64).collect())
                                            .unwrap_or_default();
                                        rec.insert(key.to_string(), json!(list));
                                    }
                                    ydata.push(Value::Object(rec));
                                }
                            }
                            out.insert("ydata".into(), json!(ydata));
                            out.insert("yaml".into(), json!(y));
                            out.insert("yaml_rt".into(), json!(ok));
                            out.insert("yaml_err".into(), json!(msg));
                        }
                        Err(e) => {
                            out.insert("yaml".into(), json!(""));
                            out.insert("yaml_rt".into(), json!(false));
                            out.insert("yaml_err".into(), json!(e.to_string()));
                        }
                    }
                }
                if !history.is_empty() {
                    let mut snaps = vec![];
                    for h in &history {
                        let r = match h.as_str() {
                            "A" => AvailableValuePass::run(&mut cfg),
                            "E" => EcallTerminationPass::run(&mut cfg),
                            "L" => LivenessPass::run(&mut cfg),
                            _ => Ok(()),
                        };
                        snaps.push(json!({
                            "pass": h,
                            "ok": r.is_ok(),
                            "cfg": cfg_json(&cfg, &ff),
                            "lints": lint_json(&run_lints(&cfg), &ff),
                        }));
                    }
                    out.insert("snaps".into(), Value::Array(snaps));
                }
            }
            Err(e) => {
                let ff = files_fn(&parser.reader);
                let item = DiagnosticItem::from(*e);
                out.insert("cfgok".into(), json!(false));
                out.insert("cfgerr".into(), item_json(&item, &ff));
            }
        }
    }
    if has(case, "items") {
        // the library entry point used by the editor integration, on a fresh reader
        let mut reader2 = MemReader::new(files.clone());
        reader2.faults = parser.reader.faults.clone();
        reader2.no_cycle_detection = parser.reader.no_cycle_detection;
        let mut p2 = RVParser::new(reader2);
        let items = p2.run(&base);
        let ff = files_fn(&p2.reader);
        out.insert(
            "items".into(),
            Value::Array(items.iter().map(|d| item_json(d, &ff)).collect()),
        );
        let names: Vec<Value> = p2.reader.order.iter().map(|(_, n)| json!(n)).collect();
        out.insert("item_files".into(), Value::Array(names));
    }
    let names: Vec<Value> = parser.reader.order.iter().map(|(_, n)| json!(n)).collect();
    out.insert("file_names".into(), Value::Array(names));
    Value::Object(out)
}

/// C19: serialize / reload individual values and maps through serde_yaml.
pub fn yaml_values(case: &Value) -> Value {
    use riscv_analysis::analysis::{AvailableValue, MemoryLocation};
    use riscv_analysis::cfg::AvailableValueMap;
    use riscv_analysis::parser::{CsrImm, LabelString, LabelStringToken, Register, Token, With};
    let mk = |v: &Value| -> Option<AvailableValue> {
        let t = v["t"].as_str()?;
        let r = v["r"].as_i64().unwrap_or(0);
        let n = v["n"].as_i64().unwrap_or(0) as i32;
        let s = v["s"].as_str().unwrap_or("").to_string();
        let rg = Register::from_num(r.clamp(0, 31) as u8).ok()?;
        Some(match t {
            "c" => AvailableValue::Constant(n),
            "a" => AvailableValue::Address(LabelStringToken::new(
                LabelString::new(s),
                Token::default(),
            )),
            "m" => AvailableValue::Memory(LabelString::new(s), n),
            "rs" => AvailableValue::RegisterWithScalar(rg, n),
            "ors" => AvailableValue::OriginalRegisterWithScalar(rg, n),
            "mr" => AvailableValue::MemoryAtRegister(rg, n),
            "omr" => AvailableValue::MemoryAtOriginalRegister(rg, n),
            "csr" => AvailableValue::ValueInCsr(CsrImm::new(r as u32)),
            "mc" => AvailableValue::MemoryAtCsr(CsrImm::new(r as u32), n),
            _ => return None,
        })
    };
    let _ = With::new(0, Token::default());
    let mut res = vec![];
    for v in case["values"].as_array().cloned().unwrap_or_default() {
        let Some(av) = mk(&v) else {
            res.push(json!({"v": v, "ok": false, "yaml": "", "rt": false, "back": {}}));
            continue;
        };
        let mut m: AvailableValueMap<Register> = AvailableValueMap::new();
        m.insert(Register::X5, av.clone());
        let r = std::panic::catch_unwind(std::panic::AssertUnwindSafe(|| {
            let y = serde_yaml::to_string(&m).unwrap_or_default();
            let back: Result<AvailableValueMap<Register>, _> = serde_yaml::from_str(&y);
            match back {
                Ok(b) => {
                    let bv = b.get(&Register::X5).map_or(json!({}), value_json);
                    (y, b == m, bv)
                }
                Err(_) => (y, false, json!({})),
            }
        }));
        match r {
            Ok((y, rt, bv)) => res.push(json!({"v": v, "ok": true, "yaml": y, "rt": rt, "back": bv})),
            Err(_) => res.push(json!({"v": v, "ok": false, "yaml": "", "rt": false, "back": {}})),
        }
    }
    let mut locs = vec![];
    for l in case["locs"].as_array().cloned().unwrap_or_default() {
        let t = l["t"].as_str().unwrap_or("");
        let c = l["c"].as_i64().unwrap_or(0);
        let o = l["o"].as_i64().unwrap_or(0) as i32;
        let loc = match t {
            "so" => MemoryLocation::StackOffset(o),
            "csr" => MemoryLocation::CsrRegister(CsrImm::new(c as u32)),
            _ => MemoryLocation::CsrRegisterValueOffset(CsrImm::new(c as u32), o),
        };
        let mut m: AvailableValueMap<MemoryLocation> = AvailableValueMap::new();
        m.insert(loc.clone(), AvailableValue::Constant(1));
        let r = std::panic::catch_unwind(std::panic::AssertUnwindSafe(|| {
            let y = serde_yaml::to_string(&m).unwrap_or_default();
            let back: Result<AvailableValueMap<MemoryLocation>, _> = serde_yaml::from_str(&y);
            match back {
                Ok(b) => {
                    let bl = b.iter().next().map_or(json!({}), |(k, _)| memloc_json(k));
                    (y, b == m, bl)
                }
                Err(_) => (y, false, json!({})),
            }
        }));
        match r {
            Ok((y, rt, bl)) => locs.push(json!({"v": l, "ok": true, "yaml": y, "rt": rt, "back": bl})),
            Err(_) => locs.push(json!({"v": l, "ok": false, "yaml": "", "rt": false, "back": {}})),
        }
    }
    // register sets (live_in / live_out / u_def of the dump)
    let mut sets = vec![];
    for st in case["sets"].as_array().cloned().unwrap_or_default() {
        let regs: Vec<Register> = st
            .as_array()
            .cloned()
            .unwrap_or_default()
            .iter()
            .filter_map(|x| Register::from_num(x.as_i64().unwrap_or(0).clamp(0, 31) as u8).ok())
            .collect();
        let set: riscv_analysis::cfg::RegisterSet = regs.iter().copied().collect();
        let r = std::panic::catch_unwind(std::panic::AssertUnwindSafe(|| {
            let y = serde_yaml::to_string(&set).unwrap_or_default();
            let back: Result<riscv_analysis::cfg::RegisterSet, _> = serde_yaml::from_str(&y);
            match back {
                Ok(b) => (y, b == set, regset(b)),
                Err(_) => (y, false, json!([])),
            }
        }));
        let v = json!({"t": "regset", "regs": st});
        match r {
            Ok((y, rt, b)) => sets.push(json!({"v": v, "ok": true, "yaml": y, "rt": rt, "back": json!({"t": "regset", "regs": b})})),
            Err(_) => sets.push(json!({"v": v, "ok": false, "yaml": "", "rt": false, "back": {}})),
        }
    }
    json!({"ev": "yamlval", "values": res, "locs": locs, "sets": sets})
}


#[cfg(rva_verif)]
fn take_sweeps() -> Value {
    Value::Array(
        riscv_analysis::verif_hooks::take()
            .into_iter()
            .map(|(p, n)| json!({"pass": p, "n": n}))
            .collect(),
    )
}
#[cfg(not(rva_verif))]
fn take_sweeps() -> Value {
    json!([])
}

/// The observables of a finished Cfg as canonical strings, one per group, so
/// that the trace specification can say *which* group a pass changed.
/// With `digest`, every group is replaced by "<length>:<64-bit SipHash, fixed
/// key>" of its canonical string: the trace specification only compares the
/// groups for equality, and full text for every step of every history is
/// gigabytes.  A replay asks for the full text.
fn parts_opt(cfg: &Cfg, ff: &dyn Fn(Uuid) -> i64, digest: bool) -> Value {
    let mut v = parts_full(cfg, ff);
    if digest {
        use std::hash::{Hash, Hasher};
        if let Some(m) = v.as_object_mut() {
            for (_, x) in m.iter_mut() {
                if let Some(st) = x.as_str() {
                    #[allow(deprecated)]
                    let mut h = std::hash::SipHasher::new_with_keys(0x5256_415f, 0x7665_7269_66);
                    st.hash(&mut h);
                    *x = json!(format!("{}:{:016x}", st.len(), h.finish()));
                }
            }
        }
    }
    v
}

fn parts_full(cfg: &Cfg, ff: &dyn Fn(Uuid) -> i64) -> Value {
    let j = cfg_json(cfg, ff);
    let nodes = j["nodes"].as_array().cloned().unwrap_or_default();
    let pick = |keys: &[&str]| -> String {
        let v: Vec<Value> = nodes
            .iter()
            .map(|n| {
                let mut m = Map::new();
                for k in keys {
                    m.insert((*k).to_string(), n[*k].clone());
                }
                Value::Object(m)
            })
            .collect();
        serde_json::to_string(&v).unwrap_or_default()
    };
    let kinds: Vec<Value> = nodes
        .iter()
        .map(|n| json!([n["node"]["k"], n["node"]["op"], n["node"]["lab"]]))
        .collect();
    // order-insensitive: the order of diagnostics with equal ranges is C10's business
    let mut lint_lines: Vec<String> = lint_json(&run_lints(cfg), ff)
        .as_array()
        .cloned()
        .unwrap_or_default()
        .iter()
        .map(|x| serde_json::to_string(x).unwrap_or_default())
        .collect();
    lint_lines.sort();
    let lints_sorted = lint_lines.join("\n");
    json!({
        "n": nodes.len(),
        "nodes": serde_json::to_string(&kinds).unwrap_or_default(),
        "edges": pick(&["nexts", "prevs"]),
        "values": pick(&["rin", "rout", "min", "mout"]),
        "live": pick(&["live_in", "live_out"]),
        "udef": pick(&["udef"]),
        "funcs": serde_json::to_string(&j["funcs"]).unwrap_or_default() + &pick(&["funcs"]),
        "lints": lints_sorted,
    })
}

/// C12: analyse the same parsed program once per history, then apply the
/// history's extra passes, recording the observables after every step.
fn stable(case: &Value) -> Value {
    let (files, base) = files_of(case);
    let reader = MemReader::new(files);
    let mut parser = RVParser::new(reader);
    let (nodes, errors) = parser.parse_from_file(&base, false);
    let ff = files_fn(&parser.reader);
    let mut runs = vec![];
    let digest = case["digest"].as_bool().unwrap_or(false);
    for h in case["histories"].as_array().cloned().unwrap_or_default() {
        let hist: Vec<String> = h
            .as_array()
            .map(|a| a.iter().map(|x| x.as_str().unwrap_or("").to_string()).collect())
            .unwrap_or_default();
        let _ = take_sweeps();
        match Manager::gen_full_cfg(nodes.clone()) {
            Ok(mut cfg) => {
                let sweeps0 = take_sweeps();
                let first = parts_opt(&cfg, &ff, digest);
                let mut steps = vec![];
                for p in &hist {
                    let r = match p.as_str() {
                        "A" => AvailableValuePass::run(&mut cfg),
                        "E" => EcallTerminationPass::run(&mut cfg),
                        "L" => LivenessPass::run(&mut cfg),
                        _ => Ok(()),
                    };
                    steps.push(json!({"pass": p, "ok": r.is_ok(), "sweeps": take_sweeps(), "parts": parts_opt(&cfg, &ff, digest)}));
                }
                runs.push(json!({"hist": hist, "ok": true, "first": first, "sweeps": sweeps0, "steps": steps}));
            }
            Err(_) => {
                runs.push(json!({"hist": hist, "ok": false, "first": {}, "sweeps": [], "steps": []}));
            }
        }
    }
    json!({"ev": "stable", "nerrors": errors.len(), "runs": runs})
}


/// C10: lint the same files `repeat` times in one process (fresh reader,
/// fresh UUIDs and hash seeds each time) through the library entry point.
fn runs(case: &Value) -> Value {
    let (files, base) = files_of(case);
    let n = case["repeat"].as_u64().unwrap_or(4) as usize;
    let mut all = vec![];
    for _ in 0..n {
        let reader = MemReader::new(files.clone());
        let mut p = RVParser::new(reader);
        let items = p.run(&base);
        let names: Vec<String> = p.reader.order.iter().map(|(_, n)| n.clone()).collect();
        let ff = files_fn(&p.reader);
        let v: Vec<Value> = items
            .iter()
            .map(|d| {
                let mut j = item_json(d, &ff);
                // file by name: the order in which files were imported is itself part of the output
                let fi = j["file"].as_i64().unwrap_or(0);
                j["fname"] = json!(if fi >= 1 { names.get(fi as usize - 1).cloned().unwrap_or_default() } else { String::new() });
                // kind = title up to the first ':' (the rest names labels / functions / offsets)
                let kind = d.title.split(':').next().unwrap_or("").to_string();
                j["kind"] = json!(kind);
                j
            })
            .collect();
        all.push(Value::Array(v));
    }
    json!({"ev": "runs", "runs": all})
}


/// As-built binding (PassLoop.tla / Trace_PassLoop.tla): record every critical
/// section of the dataflow pass loops while the standard pipeline (and then the
/// passes named in `history`) run.  Node identities are replaced by small
/// integers (order of first appearance) and facts by integers per program.
#[cfg(rva_verif)]
fn steps(case: &Value) -> Value {
    let (files, base) = files_of(case);
    let reader = MemReader::new(files);
    let mut parser = RVParser::new(reader);
    let (nodes, errors) = parser.parse_from_file(&base, false);
    let hist: Vec<String> = case["history"]
        .as_array()
        .map(|a| a.iter().map(|x| x.as_str().unwrap_or("").to_string()).collect())
        .unwrap_or_default();
    let _ = take_sweeps();
    riscv_analysis::verif_hooks::trace_on();
    let mut standard = 0usize; // number of events of the standard pipeline; the rest are extra runs
    let mut lines: Vec<String> = vec![];
    let ok = match Manager::gen_full_cfg(nodes) {
        Ok(mut cfg) => {
            lines = riscv_analysis::verif_hooks::trace_take();
            standard = lines.len();
            riscv_analysis::verif_hooks::trace_on();
            for p in &hist {
                let _ = match p.as_str() {
                    "A" => AvailableValuePass::run(&mut cfg),
                    "E" => EcallTerminationPass::run(&mut cfg),
                    "L" => LivenessPass::run(&mut cfg),
                    _ => Ok(()),
                };
            }
            true
        }
        Err(_) => false,
    };
    lines.extend(riscv_analysis::verif_hooks::trace_take());
    if !ok {
        standard = lines.len();
    }
    let _ = take_sweeps();
    let mut ids: HashMap<String, i64> = HashMap::new();
    let mut facts: HashMap<String, i64> = HashMap::new();
    let mut evs = vec![];
    fn intern(m: &mut HashMap<String, i64>, k: &str) -> i64 {
        let n = m.len() as i64 + 1;
        *m.entry(k.to_string()).or_insert(n)
    }
    fn set(m: &mut HashMap<String, i64>, v: &Value) -> Value {
        let mut out: Vec<i64> = v
            .as_array()
            .map(|a| a.iter().map(|x| intern(m, x.as_str().unwrap_or(""))).collect())
            .unwrap_or_default();
        out.sort_unstable();
        json!(out)
    }
    for (k, l) in lines.iter().enumerate() {
        let Ok(mut e) = serde_json::from_str::<Value>(l) else {
            return json!({"ev": "harness-error", "msg": format!("bad hook line {l}")});
        };
        match e["ev"].as_str().unwrap_or("") {
            "begin" => {
                // a new Cfg object has new facts but the same parser-node identities
                let arr = e["nodes"].as_array().cloned().unwrap_or_default();
                let mut ns = vec![];
                for n in &arr {
                    let id = intern(&mut ids, n["id"].as_str().unwrap_or(""));
                    ns.push(json!({
                        "id": id,
                        "prevs": set(&mut ids, &n["prevs"]),
                        "nexts": set(&mut ids, &n["nexts"]),
                        "in": set(&mut facts, &n["in"]),
                        "out": set(&mut facts, &n["out"]),
                        "udef": set(&mut facts, &n["udef"]),
                    }));
                }
                e["nodes"] = json!(ns);
            }
            "visit" => {
                e["id"] = json!(intern(&mut ids, e["id"].as_str().unwrap_or("")));
                e["in"] = set(&mut facts, &e["in"].clone());
                e["out"] = set(&mut facts, &e["out"].clone());
                e["udef"] = set(&mut facts, &e["udef"].clone());
            }
            "sweep_end" => {
                let p = e["promoted"].as_str().unwrap_or("").to_string();
                e["promoted"] = json!(if p.is_empty() { 0 } else { intern(&mut ids, &p) });
            }
            _ => {}
        }
        e["rerun"] = json!(k >= standard);
        evs.push(e);
    }
    let mut table: Vec<(i64, String)> = facts.into_iter().map(|(k, v)| (v, k)).collect();
    table.sort();
    json!({"ev": "steps", "ok": ok, "nerrors": errors.len(), "events": evs,
           "facts": table.into_iter().map(|(_, k)| k).collect::<Vec<_>>()})
}
#[cfg(not(rva_verif))]
fn steps(_case: &Value) -> Value {
    json!({"ev": "harness-error", "msg": "built without --cfg rva_verif"})
}


/// As-built binding of the parser's statement loop (Trace_ParseLoop.tla):
/// the hook events of one `parse_from_file`, file identities as small integers.
#[cfg(rva_verif)]
fn parse_steps(case: &Value) -> Value {
    let (files, base) = files_of(case);
    let reader = MemReader::new(files);
    let mut parser = RVParser::new(reader);
    riscv_analysis::verif_hooks::trace_on();
    let (nodes, errors) = parser.parse_from_file(&base, false);
    let lines = riscv_analysis::verif_hooks::trace_take();
    let mut ids: HashMap<String, i64> = HashMap::new();
    let mut evs = vec![];
    for l in &lines {
        let Ok(mut e) = serde_json::from_str::<Value>(l) else {
            return json!({"ev": "harness-error", "msg": format!("bad hook line {l}")});
        };
        if let Some(f) = e.get("file").and_then(|f| f.as_str()).map(str::to_string) {
            let n = if f.is_empty() {
                0
            } else {
                let k = ids.len() as i64 + 1;
                *ids.entry(f).or_insert(k)
            };
            e["file"] = json!(n);
        }
        evs.push(e);
    }
    json!({"ev": "parse", "nnodes": nodes.len(), "nerrors": errors.len(), "events": evs})
}
#[cfg(not(rva_verif))]
fn parse_steps(_case: &Value) -> Value {
    json!({"ev": "harness-error", "msg": "built without --cfg rva_verif"})
}
