"""C14 — renaming labels or same-class registers only renames the diagnostics."""
import os
from vlib import *
import absprog
from props.c13 import observe_pairs, NAMES

PID = "C14"


def label_map(prog, scheme):
    labs = sorted({x for s in prog if s["lab"] for x in s["lab"].split("+")})
    if scheme == "same":
        return {}
    if scheme == "suffix":
        return {l: l + "_x" for l in labs}
    if scheme == "underscore":
        return {l: "_" + l for l in labs}
    if scheme == "digits":
        return {l: "L%04d" % (7 * i + 3) for i, l in enumerate(labs)}
    if scheme == "long":
        return {l: "a_rather_long_label_name_for_" + l + "_0123456789" for l in labs}
    if scheme == "reverse":   # new names whose alphabetical order is the reverse of the old one
        return {l: "z%03d_%s" % (len(labs) - i, l) for i, l in enumerate(labs)}
    if scheme == "dunder":
        return {l: "__" + l + "__" for l in labs}
    if scheme.startswith("tool-"):   # one label gets a name the tool could be using internally
        k = int(scheme[5:]) % len(labs)
        return {labs[k]: "__return__"}
    if scheme == "swap":      # a permutation of the existing names
        return {l: labs[(i + 1) % len(labs)] for i, l in enumerate(labs)}
    return {}


def run(tier, replay=None):
    out = Outcome(PID, tier)
    wd = os.path.join(WORK, PID)
    rvh = build_harness()
    cases, gres = tlc_generate("Gen_Rename", heap="8g", timeout=3000)
    out.add_tlc(gres)
    total = len(cases)
    if tier == "quick":
        r = rng("c14")
        cases = r.sample(cases, min(len(cases), 1500))
    if replay:
        cases = [json.load(open(replay))["witness"]["case"]]
    pairs, maps = [], []
    for c in cases:
        prog = absprog.PROGRAMS[NAMES[c["prog"] - 1]]
        regmap = dict(zip(c["tfrom"], c["tto"]))
        regmap.update(dict(zip(c["sfrom"], c["sto"])))
        lm = label_map(prog, c["labs"])
        pairs.append((absprog.render(prog), absprog.render(prog, None, regmap, lm)))
        maps.append((regmap, lm))
    obs = observe_pairs(rvh, wd, pairs, "rn")
    evs = []
    for i, (c, (a, b)) in enumerate(zip(cases, obs)):
        regmap, lm = maps[i]
        rf = sorted(regmap)
        evs.append({"id": i + 1, "prop": "C14", "a": a, "b": b, "pseudo": False,
                    "what": ("t" if c["tto"] != c["tfrom"] else "") + ("s" if c["sto"] != c["sfrom"] else "") +
                            (":labels-" + c["labs"] if c["labs"] != "same" else ""),
                    "rfrom": rf, "rto": [regmap[r] for r in rf],
                    "lfrom": sorted(lm), "lto": [lm[k] for k in sorted(lm)],
                    "ofrom": ["reg:%d" % r for r in rf], "oto": ["reg:%d" % regmap[r] for r in rf]})
    v, ress = validate_chunks("Trace_Rel", evs, wd, "rel.chunk", chunk=4000, heap="8g")
    for r in ress:
        out.add_tlc(r)
    for x in v:
        x["case"] = cases[x["id"] - 1]
        x["original"], x["renamed"] = pairs[x["id"] - 1]
    out.add_verdicts(v)
    out.cov["traces_validated_against_impl"] = len(evs)
    out.sample({"case": cases[0], "renamed": pairs[0][1][:300]})
    out.assumptions += [
        "register classes: temporaries t0-t6 and saved registers s0-s11 (fp is s0); permutations = identity, all transpositions, all rotations of a class",
        "label renaming schemes: suffix, leading underscore, digits, long names, reversed alphabetical order, a cyclic permutation of the existing names, double underscores around every name, one label at a time called __return__",
        "diagnostics compared as multisets of (kind, instruction index, operand) with register operands mapped through the permutation",
    ]
    return out.finish(extra_cov={
        "renamings_total": total, "renamings_run": len(cases), "exhaustive": tier == "thorough",
        "evaluations": 2 * len(pairs), "distinct_nontrivial": len({p[1] for p in pairs}),
        "rule": "Gen_Rename: (identity | transposition | rotation) of the t class x of the s class x label scheme, at most two of the three non-trivial, x 12 base programs (quick: 1500 sampled by seed; thorough: all)",
    })
