------------------------------ MODULE Gen_Ecall ------------------------------
(* spec -> impl generator (C02, C01): one program per environment-call number *)
(* of the documented table (and some numbers outside it): all four possible  *)
(* argument registers are defined before the call, both possible result      *)
(* registers are read after it.  Exhaustive.                                 *)
EXTENDS Integers, Sequences, TLC, Json
VARIABLES phase, num
vars == <<phase, num>>
Numbers == (1..64) \cup {93, 1024, 0, 65, 100}
Prog(n) == "main:\n    li a0, 11\n    li a1, 12\n    li a2, 13\n    li a3, 14\n    li a7, " \o ToString(n)
           \o "\n    ecall\n    mv t0, a0\n    mv t1, a1\n    add a0, t0, t1\n    li a7, 1\n    ecall\n    li a7, 10\n    ecall\n"
Init == phase = "start" /\ num = 0
Pick == phase = "start" /\ \E n \in Numbers : num' = n /\ phase' = "emit"
Emit == phase = "emit" /\ PrintT("CASE " \o ToJson([text |-> Prog(num), num |-> num])) /\ phase' = "done" /\ num' = num
Next == Pick \/ Emit
Spec == Init /\ [][Next]_vars
=============================================================================
