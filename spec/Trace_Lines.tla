---------------------------- MODULE Trace_Lines ----------------------------
(* impl -> spec (C07).  For the recorded (nodes, errors) of a file and of    *)
(* its twin with one line deleted:                                           *)
(*  Accounted: every line that is not blank / comment-only is covered by a   *)
(*             node or by a parse error located on it;                       *)
(*  Contained: the nodes and errors of all other lines are exactly those of  *)
(*             the twin.                                                     *)
EXTENDS Text, Json, IOUtils
Rec == ndJsonDeserialize(IOEnv.TRACE)
VARIABLES l
vars == <<l>>

\* set of lines covered by a located item (node or error) of file g
LinesOf(g, T, x) == IF x.file = g /\ x.r0 >= 0 /\ x.r0 <= Len(T) /\ x.r1 <= Len(T) /\ x.r0 <= x.r1
                    THEN LineOf(T, x.r0)..LineOf(T, x.r1) ELSE {}
Covered(e, g, T) == UNION ({ LinesOf(g, T, e.nodes[k]) : k \in 2..Len(e.nodes) }
                           \cup { LinesOf(g, T, e.errors[k]) : k \in 1..Len(e.errors) })
NeedsAccount(T, i) == LET s == LineText(T, i) IN ~IsBlankLine(s) /\ ~IsCommentLine(s)

Relation(c, i) == IF c.fault = "none" THEN "no-fault-in-file"
                  ELSE IF i = c.badline THEN "the-bad-line"
                  ELSE IF i = c.badline + 1 THEN "line-after-bad"
                  ELSE IF i > c.badline THEN "later-line" ELSE "line-before-bad"

Sig(n) == <<n.k, n.op, n.rd, n.rs1, n.rs2, n.imm, n.lab, n.csr, n.dir, n.vals>>
NodeLine(T, n) == IF n.r0 <= Len(T) THEN LineOf(T, n.r0) ELSE -1
\* nodes (after ProgramEntry) not on line b
OtherNodes(e, g, T, b) == SelectSeq(SubSeq(e.nodes, 2, Len(e.nodes)), LAMBDA n : n.file = g /\ NodeLine(T, n) # b)
OtherErrs(e, g, T, b)  == SelectSeq(e.errors, LAMBDA x : x.file = g /\ NodeLine(T, x) # b)

RECURSIVE DroppedFrom(_, _, _, _)
DroppedFrom(T, c, cov, i) ==
  IF i >= NumLines(T) THEN <<>>
  ELSE (IF i \notin cov /\ NeedsAccount(T, i)
          THEN << "C07:dropped:" \o Relation(c, i) \o ":" \o c.fault \o ":" \o c.ending >> ELSE <<>>)
       \o DroppedFrom(T, c, cov, i + 1)
Dropped(e, T, c, i) == DroppedFrom(T, c, Covered(e, c.gfile, T), i)

\* every parse error is among the diagnostics the library entry point reports (same file, same line)
Unreported(e) ==
  IF Len(e.full.items) = 0 /\ Len(e.full.errors) = 0 THEN <<>>
  ELSE IF \E k \in 1..Len(e.full.errors) :
            ~\E j \in 1..Len(e.full.items) : e.full.items[j].file = e.full.errors[k].file /\ e.full.items[j].l0 = e.full.errors[k].l0
         THEN << "C07:reported:parse-error-missing-from-the-reported-diagnostics:" \o e.case.fault >>
       ELSE <<>>
Judge(e) ==
  LET c == e.case IN
  IF e.full.ev # "obs" \/ e.twin.ev # "obs" THEN << "C07:" \o e.full.ev \o ":" \o c.fault \o ":" \o c.ending >>
  ELSE
  LET g  == c.gfile
      T  == IF Len(e.full.files) >= g THEN e.full.files[g].text ELSE <<>>
      a  == OtherNodes(e.full, g, T, c.badline)
      b  == SelectSeq(SubSeq(e.twin.nodes, 2, Len(e.twin.nodes)), LAMBDA n : n.file = g)
      ea == OtherErrs(e.full, g, T, c.badline)
      eb == SelectSeq(e.twin.errors, LAMBDA x : x.file = g)
  IN (IF e.case.items THEN Unreported(e) ELSE <<>>) \o
     (IF Len(e.full.files) < g THEN << "C07:file-not-read:" \o c.fault \o ":" \o c.ending >> ELSE Dropped(e.full, T, c, 0))
     \o (IF c.fault = "none" THEN <<>>
         ELSE IF [i \in 1..Len(a) |-> Sig(a[i])] # [i \in 1..Len(b) |-> Sig(b[i])]
           THEN << "C07:containment:nodes-differ:" \o c.fault \o ":" \o c.ending >>
         ELSE IF Len(ea) # Len(eb)
           THEN << "C07:containment:errors-differ:" \o c.fault \o ":" \o c.ending >>
         ELSE <<>>)

RECURSIVE Dedup(_, _, _)
Dedup(s, i, seen) == IF i > Len(s) THEN <<>>
                     ELSE IF s[i] \in seen THEN Dedup(s, i + 1, seen) ELSE <<s[i]>> \o Dedup(s, i + 1, seen \cup {s[i]})
RECURSIVE Report(_, _, _)
Report(e, bad, i) ==
  IF i > Len(bad) THEN TRUE
  ELSE PrintT("VERDICT " \o ToJson([id |-> e.id, key |-> bad[i]])) /\ Report(e, bad, i + 1)

Init == l = 1
Next == /\ l <= Len(Rec)
        /\ Report(Rec[l], Dedup(Judge(Rec[l]), 1, {}), 1)
        /\ l' = l + 1
Spec == Init /\ [][Next]_vars
Accepted == IF TLCGet("stats").diameter = Len(Rec) + 1 THEN TRUE
            ELSE PrintT("TRACE-NOT-CONSUMED") /\ FALSE
=============================================================================
