CONSTANTS K = 4
  Reach = FALSE
INIT Init
NEXT Next
CHECK_DEADLOCK FALSE
