"""C11 — functions are exactly the call targets and their bodies are what they reach."""
from props.cfgcommon import *

PID = "C11"


def run(tier, replay=None):
    out, stats, ngen = run_flow(PID, tier, replay, "C11:")
    out.assumptions += [
        "a node is a function entry iff some call names one of its labels (alias labels on the same instruction share the function)",
        "bodies are judged against reachability over the observed edges (whose correctness is C03's business)",
        "interrupt-handler installation (utvec) is exercised by the C01/C02 corpus, not by Gen_Flow",
    ]
    return out.finish(extra_cov=dict(stats, exhaustive=False, evaluations=stats["programs"],
                                     distinct_nontrivial=stats["programs_with_functions"],
                                     rule="Gen_Flow: tlc -simulate n=3..7 over 4 shapes (+ exhaustive n=2 in the thorough tier); + repository/corpus programs; non-trivial = programs with at least one function"))
