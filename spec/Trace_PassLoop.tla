--------------------------- MODULE Trace_PassLoop ---------------------------
(* impl -> spec: step traces recorded from the real dataflow passes (hooks    *)
(* pass_begin / visit / sweep_end in riscv_analysis/src/verif_hooks.rs, one   *)
(* event per critical section of the pass loops) are replayed against the     *)
(* as-built model.  The decisions are the operators of PassOps.tla, the same  *)
(* ones PassLoop.tla is model-checked with; the transfer function of a node   *)
(* is not modelled: its result (`out`) is taken from the event.               *)
(*                                                                             *)
(*   begin(pass, nodes)      a run starts: iteration order, edges, the facts   *)
(*                           attached to every node at that moment             *)
(*   visit(id, waited, in, out, udef, changed)                                 *)
(*   sweep_end(promoted, again)                                                *)
(*                                                                             *)
(* Two kinds of lines are printed.                                             *)
(*  VERDICT (a clause of C12 is false on this run of the real code):           *)
(*    C12:steps:run-ends-off-the-fixed-point:<pass>   in[n] is not the meet    *)
(*        of the out of all predecessors (live_out[n] not the union of the     *)
(*        live_in of all successors) when the pass stops                       *)
(*    C12:steps:rerun-changes-facts:<pass>   a run that started on the graph   *)
(*        and the facts the previous run of the pass ended with ends with      *)
(*        different facts                                                      *)
(*    C12:steps:sweeps-exceed-limit:<pass>                                     *)
(*  DRIFT (the code no longer does what the as-built model says at this step;  *)
(*    not a property violation: it means the model-checking results of         *)
(*    PassLoop.tla no longer speak about this code until the model follows).   *)
EXTENDS Integers, Sequences, FiniteSets, TLC, Json, IOUtils, PassOps
Rec == ndJsonDeserialize(IOEnv.TRACE)

VARIABLES l,
          pass, order, prevs, nexts,     \* the run in progress
          fin, fout,                     \* facts as the events have shown them
          visited, roots, changed, waiting, cursor, sweeps,
          lastEnd                        \* pass -> [prevs, fin, fout] at the end of its previous run
vars == <<l, pass, order, prevs, nexts, fin, fout, visited, roots, changed, waiting, cursor, sweeps, lastEnd>>

ToSet(s) == { s[i] : i \in 1..Len(s) }
Ids(ns)  == { ns[k].id : k \in 1..Len(ns) }
Field(ns, i, f) == LET k == CHOOSE k \in 1..Len(ns) : ns[k].id = i IN ToSet(ns[k][f])

Say(tag, e, key) == PrintT(tag \o " " \o ToJson([id |-> e.gid, prog |-> e.prog, key |-> key]))
RECURSIVE SayAll(_, _, _)
SayAll(tag, e, keys) == IF keys = <<>> THEN TRUE ELSE Say(tag, e, Head(keys)) /\ SayAll(tag, e, Tail(keys))
When(c, key) == IF c THEN <<key>> ELSE <<>>

NoRun == [prevs |-> <<>>, fin |-> <<>>, fout |-> <<>>]
Init == /\ l = 1 /\ pass = "" /\ order = <<>> /\ prevs = <<>> /\ nexts = <<>> /\ fin = <<>> /\ fout = <<>>
        /\ visited = {} /\ roots = {} /\ changed = FALSE /\ waiting = 0 /\ cursor = 1 /\ sweeps = 1
        /\ lastEnd = [p \in {"available", "liveness", "udef"} |-> NoRun]

\* a new program: nothing carries over
Program ==
  /\ Rec[l].ev = "program"
  /\ pass' = "" /\ order' = <<>> /\ prevs' = <<>> /\ nexts' = <<>> /\ fin' = <<>> /\ fout' = <<>>
  /\ visited' = {} /\ roots' = {} /\ changed' = FALSE /\ waiting' = 0 /\ cursor' = 1 /\ sweeps' = 1
  /\ lastEnd' = [p \in {"available", "liveness", "udef"} |-> NoRun]

\* (u_def has a loop of its own since 52fac33, without step events: the udef field of a liveness event is whatever an
\* earlier run left behind and is not compared here; Trace_Stable compares the u_def sets of the finished graph)
InFacts(e)  == IF e.pass \in {"available", "udef"} THEN ToSet(e.in) ELSE <<ToSet(e.in), {}>>
Begin ==
  /\ Rec[l].ev = "begin"
  /\ LET e == Rec[l] ns == e.nodes I == Ids(ns) IN
     /\ pass' = e.pass
     /\ order' = [k \in 1..Len(ns) |-> ns[k].id]
     /\ prevs' = [i \in I |-> Field(ns, i, "prevs")]
     /\ nexts' = [i \in I |-> Field(ns, i, "nexts")]
     /\ fin'  = [i \in I |-> IF e.pass \in {"available", "udef"} THEN Field(ns, i, "in")
                             ELSE <<Field(ns, i, "in"), {}>>]
     /\ fout' = [i \in I |-> Field(ns, i, "out")]
  /\ visited' = {} /\ roots' = {} /\ changed' = FALSE /\ waiting' = 0 /\ sweeps' = 1
  /\ cursor' = 1
  /\ UNCHANGED lastEnd

\* ---- available: forward, cfg.iter() order
VisitAvail ==
  /\ Rec[l].ev = "visit" /\ Rec[l].pass = "available"
  /\ LET e == Rec[l] n == e.id
         known == n \in DOMAIN prevs
         P  == IF known THEN prevs[n] ELSE {}
         vp == P \cap visited
         wait == ShouldWait(TRUE, P, visited, roots, n)
         i == ToSet(e.in)  o == ToSet(e.out)
         expIn == RootIn(TRUE, roots, n, MeetOut(fout, vp))
         expCh == IF wait THEN changed
                  ELSE ChangedAfter(changed, i, o, fin[n], fout[n], n \notin visited, TRUE)
     IN /\ SayAll("DRIFT", e,
                  When(~known \/ cursor > Len(order) \/ (cursor <= Len(order) /\ order[cursor] # n), "available:visit-order")
                  \o When(known /\ wait # e.waited, "available:wait-rule")
                  \o When(known /\ ~e.waited /\ i # expIn, "available:in-is-not-the-meet-of-visited-predecessors")
                  \o When(known /\ e.waited = wait /\ e.changed # expCh, "available:changed-flag"))
        /\ IF e.waited
             THEN /\ waiting' = (IF waiting = 0 THEN n ELSE waiting)
                  /\ UNCHANGED <<fin, fout, visited>>
             ELSE /\ fin'  = [j \in DOMAIN fin \cup {n}  |-> IF j = n THEN i ELSE fin[j]]
                  /\ fout' = [j \in DOMAIN fout \cup {n} |-> IF j = n THEN o ELSE fout[j]]
                  /\ visited' = visited \cup {n}
                  /\ UNCHANGED waiting
        /\ changed' = e.changed           \* follow the implementation so that the rest of the trace is checked
        /\ cursor' = cursor + 1
  /\ UNCHANGED <<pass, order, prevs, nexts, roots, sweeps, lastEnd>>

\* ---- liveness: backward, cfg.iter().rev(); a call site also adds to the live-in of the callee's exit, so
\* only the order, the flag's monotonicity and the end state are compared (the facts of a node can change between
\* two of its visits without the flag being set in the second one)
VisitLive ==
  /\ Rec[l].ev = "visit" /\ Rec[l].pass = "liveness"
  /\ LET e == Rec[l] n == e.id
         k == Len(order) + 1 - cursor
         i == <<ToSet(e.in), {}>>  o == ToSet(e.out)
     IN /\ SayAll("DRIFT", e,
                  When(k < 1 \/ (k >= 1 /\ order[k] # n), "liveness:visit-order")
                  \o When(changed /\ ~e.changed, "liveness:changed-flag-went-back"))
        /\ fin'  = [j \in DOMAIN fin \cup {n}  |-> IF j = n THEN i ELSE fin[j]]
        /\ fout' = [j \in DOMAIN fout \cup {n} |-> IF j = n THEN o ELSE fout[j]]
        /\ visited' = visited \cup {n}
        /\ changed' = e.changed
        /\ cursor' = cursor + 1
  /\ UNCHANGED <<pass, order, prevs, nexts, roots, waiting, sweeps, lastEnd>>

\* ---- u_def: forward, cfg.iter(), no wait rule; a predecessor that has not been visited stands for "everything"
\* (PassLoop.tla with UnvisitedIsTop; the 32 registers are the facts).  `in` is the AND the loop computed.
VisitUdef ==
  /\ Rec[l].ev = "visit" /\ Rec[l].pass = "udef"
  /\ LET e == Rec[l] n == e.id
         known == n \in DOMAIN prevs
         P  == IF known THEN prevs[n] ELSE {}
         vp == P \cap visited
         i == ToSet(e.in)  o == ToSet(e.out)
         okIn == IF P = {} THEN i = {}
                 ELSE IF vp = {} THEN Cardinality(i) = 32        \* everything
                 ELSE i = MeetOut(fout, vp)
         expCh == changed \/ (known /\ o # fout[n])
     IN /\ SayAll("DRIFT", e,
                  When(~known \/ cursor > Len(order) \/ (cursor <= Len(order) /\ order[cursor] # n), "udef:visit-order")
                  \o When(known /\ ~okIn, "udef:in-is-not-the-meet-of-visited-predecessors")
                  \o When(known /\ e.changed # expCh, "udef:changed-flag"))
        /\ fin'  = [j \in DOMAIN fin \cup {n}  |-> IF j = n THEN i ELSE fin[j]]
        /\ fout' = [j \in DOMAIN fout \cup {n} |-> IF j = n THEN o ELSE fout[j]]
        /\ visited' = visited \cup {n}
        /\ changed' = e.changed
        /\ cursor' = cursor + 1
  /\ UNCHANGED <<pass, order, prevs, nexts, roots, waiting, sweeps, lastEnd>>

\* ---- the end of a sweep / of the run
\* (a node that had to be promoted to a root is an entry of unreachable code: nothing is known there)
OffMeet == { n \in DOMAIN fin : fin[n] # RootIn(TRUE, roots, n, MeetOut(fout, prevs[n])) }
OffJoin == { n \in DOMAIN fin : fout[n] # UNION { fin[s][1] : s \in nexts[n] } }
\* u_def: when the run stops every node has been visited, so `in` is the AND over all predecessors (nothing without any)
OffMeetU == { n \in DOMAIN fin : fin[n] # (IF prevs[n] = {} THEN {} ELSE MeetOut(fout, prevs[n])) }
SameStart(p) == lastEnd[p] # NoRun /\ lastEnd[p].prevs = prevs
SweepEnd ==
  /\ Rec[l].ev = "sweep_end"
  /\ LET e == Rec[l]
         what == IF e.pass = "available" THEN SweepOutcome(changed, waiting)
                 ELSE (IF changed THEN "again" ELSE "stop")
         did  == IF ~e.again THEN "stop" ELSE IF e.promoted # 0 THEN "promote" ELSE "again"
         stop == ~e.again
         endRec == [prevs |-> prevs, fin |-> fin, fout |-> fout]
     IN /\ SayAll("DRIFT", e,
                  When(what # did, e.pass \o ":sweep-outcome")
                  \o When(did = "promote" /\ e.promoted # waiting, e.pass \o ":promoted-node-is-not-the-first-waiting-one")
                  \o When(cursor # Len(order) + 1, e.pass \o ":sweep-did-not-cover-every-node"))
        /\ SayAll("VERDICT", e,
                  When(stop /\ e.pass = "available" /\ OffMeet # {}, "C12:steps:run-ends-off-the-fixed-point:available")
                  \o When(stop /\ e.pass = "liveness" /\ OffJoin # {}, "C12:steps:run-ends-off-the-fixed-point:liveness")
                  \* (`in` of the u_def loop is not kept on the node: a re-run that finds every set unchanged stops after one
                  \* sweep, in which a node may have seen only some of its predecessors - judged from the second sweep on)
                  \o When(stop /\ e.pass = "udef" /\ sweeps >= 2 /\ OffMeetU # {}, "C12:steps:run-ends-off-the-fixed-point:udef")
                  \o When(stop /\ e.rerun /\ SameStart(e.pass)
                               /\ ((e.pass # "udef" /\ lastEnd[e.pass].fin # fin) \/ lastEnd[e.pass].fout # fout),
                          "C12:steps:rerun-changes-facts:" \o e.pass)
                  \o When(sweeps > SweepLimit(Len(order)), "C12:steps:sweeps-exceed-limit:" \o e.pass))
        /\ IF stop
             THEN /\ lastEnd' = [lastEnd EXCEPT ![e.pass] = endRec]
                  /\ PrintT("RUN " \o ToJson([prog |-> e.prog, pass |-> e.pass, sweeps |-> sweeps, nodes |-> Len(order),
                                              roots |-> Cardinality(roots), rerun |-> e.rerun /\ SameStart(e.pass)]))
                  /\ UNCHANGED <<roots, changed, waiting, cursor, sweeps>>
             ELSE /\ roots' = (IF e.promoted # 0 THEN roots \cup {e.promoted} ELSE roots)
                  /\ changed' = FALSE /\ waiting' = 0 /\ cursor' = 1 /\ sweeps' = sweeps + 1
                  /\ UNCHANGED lastEnd
  /\ UNCHANGED <<pass, order, prevs, nexts, fin, fout, visited>>

Next == l <= Len(Rec) /\ (Program \/ Begin \/ VisitAvail \/ VisitLive \/ VisitUdef \/ SweepEnd) /\ l' = l + 1
Spec == Init /\ [][Next]_vars
Accepted == IF TLCGet("stats").diameter = Len(Rec) + 1 THEN TRUE
            ELSE PrintT("TRACE-NOT-CONSUMED") /\ FALSE
=============================================================================
