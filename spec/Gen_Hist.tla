------------------------------ MODULE Gen_Hist ------------------------------
(* spec -> impl generator of pass histories (C12): every sequence of extra   *)
(* pass runs over {A = value analysis, E = ecall termination, L = liveness}  *)
(* of length 1..MaxLen applied after the standard pipeline.                  *)
EXTENDS Integers, Sequences, TLC, Json
CONSTANT MaxLen
VARIABLES hist, done
vars == <<hist, done>>
Passes == {"A", "E", "L"}
Init == hist = <<>> /\ done = FALSE
Extend == ~done /\ Len(hist) < MaxLen /\ \E p \in Passes : hist' = Append(hist, p) /\ done' = FALSE
Stop == ~done /\ Len(hist) >= 1 /\ done' = TRUE /\ hist' = hist
        /\ PrintT("CASE " \o ToJson([hist |-> hist]))
Next == Extend \/ Stop
Spec == Init /\ [][Next]_vars
=============================================================================
