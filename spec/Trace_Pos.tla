----------------------------- MODULE Trace_Pos -----------------------------
(* impl -> spec (C09): every location the implementation reports — tokens    *)
(* from the Lexer, parser nodes and their operand tokens, parse errors, CFG  *)
(* errors and lint diagnostics — is validated against the position function  *)
(* Text!PosOf of the file it names, and against the statement / operand      *)
(* spans the generator computed.  Ends are inclusive (the CLI prints columns *)
(* start..end and draws end-start+1 carets).                                 *)
EXTENDS Text, Json, IOUtils
Rec == ndJsonDeserialize(IOEnv.TRACE)
VARIABLES l
vars == <<l>>

\* which field of a location disagrees with PosOf of its own raw offsets ("" = consistent)
LocDefect(text, x) ==
  IF x.r0 < 0 \/ x.r1 < x.r0 \/ x.r1 >= Len(text) THEN "bounds"
  ELSE LET p0 == PosOf(text, x.r0) p1 == PosOf(text, x.r1) IN
       IF x.l0 # p0.line THEN "start-line"
       ELSE IF x.c0 # p0.col THEN "start-col"
       ELSE IF x.l1 # p1.line THEN "end-line"
       ELSE IF x.c1 # p1.col THEN "end-col"
       ELSE IF p0.line # p1.line THEN "multi-line"
       ELSE ""

\* context class of a location, so that distinct defects get distinct keys
Ctx(text, x) ==
  (IF x.r0 >= 0 /\ x.r0 <= Len(text) /\ LineOf(text, x.r0) = 0 THEN "first-line" ELSE "later-line")
  \o (IF Len(text) > 0 /\ text[1] = LF THEN "+leading-blank" ELSE "")

FileText(e, f) == IF f >= 1 /\ f <= Len(e.files) THEN e.files[f].text ELSE <<>>

Check(e, what, x) ==
  LET text == FileText(e, x.file)
      d == IF x.file < 1 \/ x.file > Len(e.files) THEN "no-file" ELSE LocDefect(text, x)
  IN IF d = "" THEN <<>>
     ELSE IF d = "no-file" THEN << "C09:" \o what \o ":no-file" >>
     ELSE << "C09:" \o what \o ":" \o d \o ":" \o Ctx(text, x) >>

RECURSIVE Cat(_, _, _)
Cat(f(_), n, i) == IF i > n THEN <<>> ELSE f(i) \o Cat(f, n, i + 1)

\* --- tokens: consistency, and the slice is the token's own text
TokKinds == {"Symbol", "Label", "Directive", "String", "Char", "LParen", "RParen", "Newline", "Comment"}
TokText(t) == IF t.k = "Comment" THEN <<35>> \o t.raw
              ELSE IF t.k = "LParen" THEN <<40>> ELSE IF t.k = "RParen" THEN <<41>>
              ELSE IF t.k = "Newline" THEN <<LF>> ELSE t.raw
JudgeTok(e, f, t) ==
  IF t.k \notin TokKinds THEN <<>>
  ELSE LET c == Check(e, "tok:" \o t.k, t) IN
       IF c # <<>> THEN c
       ELSE IF t.k \in {"String", "Char"} THEN <<>>     \* escapes: source text differs from value
       ELSE IF Slice(FileText(e, t.file), t.r0, t.r1) # TokText(t)
              THEN << "C09:tok:" \o t.k \o ":slice:" \o Ctx(FileText(e, t.file), t) >> ELSE <<>>
JudgeToks(e) ==
  LET perfile(f) == LET ts == e.toks[f] g(i) == JudgeTok(e, f, ts[i]) IN Cat(g, Len(ts), 1)
  IN Cat(perfile, Len(e.toks), 1)

\* --- nodes against the generator's spans (file index of the generated text: e.case.gfile)
InstrNodes(e) == SelectSeq(e.nodes, LAMBDA n : n.k \notin {"ProgramEntry", "Directive"} /\ n.file = e.case.gfile)
RoleSpan(sp, role) ==
  LET idx == {i \in 1..Len(sp.ops) : sp.ops[i].role = role} IN
  IF idx = {} THEN [a |-> -1, b |-> -1] ELSE LET i == CHOOSE j \in idx : TRUE IN [a |-> sp.ops[i].a, b |-> sp.ops[i].b]
JudgeSub(e, n, sp, s) ==
  LET c == Check(e, "operand:" \o s.role, s) IN
  IF c # <<>> THEN c
  ELSE LET r == RoleSpan(sp, s.role) IN
       IF r.a < 0 THEN <<>>                      \* implicit operand (x0 of li, ra of ret, ...): no text of its own
       ELSE IF s.r0 # r.a \/ s.r1 # r.b THEN << "C09:operand:" \o s.role \o ":span:" \o n.k >> ELSE <<>>
JudgeNode(e, n, sp) ==
  LET c == Check(e, "node:" \o n.k, n) IN
  (IF c # <<>> THEN c
   ELSE IF n.k # sp.k THEN << "C09:node:" \o n.k \o ":unexpected-kind" >>
   ELSE IF n.r0 # sp.s \/ n.r1 # sp.e THEN << "C09:node:" \o n.k \o ":span:" \o (IF n.r1 > sp.e THEN "too-long" ELSE "other") >>
   ELSE <<>>)
  \o (LET g(i) == JudgeSub(e, n, sp, n.sub[i]) IN Cat(g, Len(n.sub), 1))
JudgeNodes(e) ==
  LET ns == InstrNodes(e) sps == e.case.spans IN
  IF e.case.free THEN (LET h(i) == Check(e, "node:" \o e.nodes[i].k, e.nodes[i])
                                    \o (LET g(j) == Check(e, "operand:" \o e.nodes[i].sub[j].role, e.nodes[i].sub[j])
                                        IN Cat(g, Len(e.nodes[i].sub), 1))
                       IN Cat(h, Len(e.nodes), 2))
  ELSE IF Len(e.errors) > 0 THEN <<>>          \* statements lost to a parse error are C07's business
  ELSE IF Len(ns) # Len(sps) THEN << "C09:nodes:count" >>
  ELSE LET g(i) == JudgeNode(e, ns[i], sps[i]) IN Cat(g, Len(ns), 1)

\* --- diagnostics: consistent, and designating a whole statement or one operand
AllSpans(e) == UNION { {<<e.case.spans[i].s, e.case.spans[i].e>>}
                       \cup { <<e.case.spans[i].ops[j].a, e.case.spans[i].ops[j].b>> : j \in 1..Len(e.case.spans[i].ops) }
                       : i \in 1..Len(e.case.spans) }
JudgeDiag(e, what, x) ==
  LET c == Check(e, what, x) IN
  IF c # <<>> THEN c
  ELSE IF ~e.case.free /\ x.file = e.case.gfile /\ <<x.r0, x.r1>> \notin AllSpans(e) THEN << "C09:" \o what \o ":not-a-statement-or-operand" >>
  ELSE <<>>
JudgeDiags(e) ==
  (LET g(i) == JudgeDiag(e, "err:" \o e.errors[i].kind, e.errors[i]) IN Cat(g, Len(e.errors), 1))
  \o (IF e.cfgok THEN (LET g(i) == JudgeDiag(e, "lint:" \o e.lints[i].code, e.lints[i]) IN Cat(g, Len(e.lints), 1))
      ELSE JudgeDiag(e, "cfgerr", e.cfgerr))

\* --- the finished graph: its instruction nodes, in order, stand at the places of the parsed statements, in order
\* (passes that replace a node - an additional return turned into a jump to the exit - must keep its place;
\* diagnostics take their location from the graph node)
GraphPlaces(e) ==
  IF ~e.cfgok \/ Len(e.gnodes) = 0 \/ Len(e.errors) > 0 THEN <<>>
  ELSE LET ps == SelectSeq(e.nodes, LAMBDA n : n.k \notin {"ProgramEntry", "Label", "Directive", "FuncEntry"})
           gs == SelectSeq(e.gnodes, LAMBDA n : n.k \notin {"ProgramEntry", "FuncEntry"})
       IN IF Len(ps) # Len(gs) THEN << "C09:graph-node:count-differs-from-the-statements" >>
          ELSE IF \E i \in 1..Len(ps) : ps[i].file # gs[i].file \/ ps[i].r0 # gs[i].r0 \/ ps[i].r1 # gs[i].r1
            THEN << "C09:graph-node:stands-at-another-place-than-its-statement" >> ELSE <<>>

Judge(e) == IF e.ev # "obs" THEN << "C09:" \o e.ev >> ELSE JudgeToks(e) \o JudgeNodes(e) \o JudgeDiags(e) \o GraphPlaces(e)

RECURSIVE Dedup(_, _, _)
Dedup(s, i, seen) == IF i > Len(s) THEN <<>>
                     ELSE IF s[i] \in seen THEN Dedup(s, i + 1, seen) ELSE <<s[i]>> \o Dedup(s, i + 1, seen \cup {s[i]})
RECURSIVE Report(_, _, _)
Report(e, bad, i) ==
  IF i > Len(bad) THEN TRUE
  ELSE PrintT("VERDICT " \o ToJson([id |-> e.id, key |-> bad[i]])) /\ Report(e, bad, i + 1)

Init == l = 1
Next == /\ l <= Len(Rec)
        /\ Report(Rec[l], Dedup(Judge(Rec[l]), 1, {}), 1)
        /\ l' = l + 1
Spec == Init /\ [][Next]_vars
Accepted == IF TLCGet("stats").diameter = Len(Rec) + 1 THEN TRUE
            ELSE PrintT("TRACE-NOT-CONSUMED") /\ FALSE
=============================================================================
