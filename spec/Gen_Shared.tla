----------------------------- MODULE Gen_Shared -----------------------------
(* spec -> impl generator of functions that share code (C02, C03, C10, C11,   *)
(* C12, C19): F runs into a tail T (by fall-through or by a jump), G enters   *)
(* the same tail by a branch and has a return of its own or not; the three    *)
(* pieces are written in every order; main calls F and G in either order and  *)
(* reads the result of each call or not.  Which return becomes whose exit,    *)
(* which returns are merged, and what is live on the shared path all depend   *)
(* on these choices.  Exhaustive (a few hundred programs).                    *)
EXTENDS Integers, Sequences, FiniteSets, TLC, Json
VARIABLES phase, order, fway, lay, genter, gown, r1, r2
vars == <<phase, order, fway, lay, genter, gown, r1, r2>>

Perms3 == { p \in [1..3 -> 1..3] : \A i, j \in 1..3 : i # j => p[i] # p[j] }
\* pieces: 1 = head of F, 2 = tail T, 3 = G
Piece(k, fw, ge, go) ==
  CASE k = 1 -> "F:\n    addi a2, a2, 1\n" \o (IF fw = "jump" THEN "    j T\n" ELSE "")
    [] k = 2 -> "T:\n    li a0, 7\n    ret\n"
    [] k = 3 -> "G:\n    " \o ge \o " a1, T\n" \o (IF go = "own-return" THEN "    li a0, 0\n    ret\n" ELSE "    li a0, 3\n    j T2\n")
\* G without a return of its own ends in a second shared block T2 placed at the very end
T2(go) == IF go = "own-return" THEN "" ELSE "T2:\n    addi a0, a0, 1\n    ret\n"
Main(o, a, b) ==
  "main:\n    li a1, 1\n    li a2, 0\n    call " \o o[1] \o "\n"
  \o (IF a THEN "    mv s0, a0\n" ELSE "    li s0, 5\n")
  \o "    call " \o o[2] \o "\n"
  \o (IF b THEN "    add a0, a0, s0\n" ELSE "    mv a0, s0\n")
  \o "    li a7, 1\n    ecall\n    li a7, 10\n    ecall\n"
Prog(o, fw, p, ge, go, a, b) ==
  Main(o, a, b) \o Piece(p[1], fw, ge, go) \o Piece(p[2], fw, ge, go) \o Piece(p[3], fw, ge, go) \o T2(go)

Init == phase = "start" /\ order = <<"F", "G">> /\ fway = "fall" /\ lay = <<1, 2, 3>> /\ genter = "bnez" /\ gown = "own-return"
        /\ r1 = FALSE /\ r2 = FALSE
Pick == /\ phase = "start"
        /\ \E o \in {<<"F", "G">>, <<"G", "F">>}, fw \in {"fall", "jump"}, p \in Perms3, ge \in {"bnez", "beqz"},
              go \in {"own-return", "shared-return"}, a \in BOOLEAN, b \in BOOLEAN :
             \* falling into the tail needs the tail directly behind the head of F
             /\ (fw = "fall" => \E i \in 1..2 : p[i] = 1 /\ p[i + 1] = 2)
             /\ order' = o /\ fway' = fw /\ lay' = p /\ genter' = ge /\ gown' = go /\ r1' = a /\ r2' = b
        /\ phase' = "emit"
Emit == /\ phase = "emit"
        /\ PrintT("CASE " \o ToJson([text |-> Prog(order, fway, lay, genter, gown, r1, r2), order |-> order, fway |-> fway, lay |-> lay,
                                     genter |-> genter, gown |-> gown, r1 |-> r1, r2 |-> r2]))
        /\ phase' = "done" /\ UNCHANGED <<order, fway, lay, genter, gown, r1, r2>>
Next == Pick \/ Emit
Spec == Init /\ [][Next]_vars
=============================================================================
