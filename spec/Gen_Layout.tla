---------------------------- MODULE Gen_Layout ----------------------------
(* spec -> impl generator for source positions (C09): statement templates x  *)
(* leading blank lines x indentation x two statements on one line x trailing *)
(* comment x base / included file.  The generator computes, from string      *)
(* lengths alone, the offset span of every statement and operand; the judge  *)
(* (Trace_Pos) derives line/column from the text with Text!PosOf.            *)
EXTENDS Integers, Sequences, TLC, Json
VARIABLES phase, lead, indent, s1, s2, same, comment, inc
vars == <<phase, lead, indent, s1, s2, same, comment, inc>>

\* statement templates: text, kind of node it yields, operand spans relative to the statement start
Sp(role, a, b) == [role |-> role, a |-> a, b |-> b]
Stmts == <<
  [t |-> "addi a0, a1, 5",   k |-> "IArith",    ops |-> <<Sp("op",0,3), Sp("rd",5,6), Sp("rs1",9,10), Sp("imm",13,13)>>],
  [t |-> "lw t0, 8(sp)",     k |-> "Load",      ops |-> <<Sp("op",0,1), Sp("rd",3,4), Sp("imm",7,7), Sp("rs1",9,10)>>],
  [t |-> "beq t0, t1, end",  k |-> "Branch",    ops |-> <<Sp("op",0,2), Sp("rs1",4,5), Sp("rs2",8,9), Sp("lab",12,14)>>],
  [t |-> "ret",              k |-> "JumpLinkR", ops |-> <<Sp("op",0,2)>>],
  [t |-> "sw a0, (sp)",      k |-> "Store",     ops |-> <<Sp("op",0,1), Sp("rs2",3,4), Sp("rs1",8,9)>>],
  [t |-> "add  t2,t0 ,  t1", k |-> "Arith",     ops |-> <<Sp("op",0,2), Sp("rd",5,6), Sp("rs1",8,9), Sp("rs2",14,15)>>],
  [t |-> "lab1:",            k |-> "Label",     ops |-> <<Sp("lab",0,4)>>],
  [t |-> "li zero, 3",       k |-> "IArith",    ops |-> <<Sp("op",0,1), Sp("rd",3,6), Sp("imm",9,9)>>],
  [t |-> "jalr a0",          k |-> "JumpLinkR", ops |-> <<Sp("op",0,3), Sp("rs1",5,6)>>],
  [t |-> "la a1, end",       k |-> "LoadAddr",  ops |-> <<Sp("op",0,1), Sp("rd",3,4), Sp("lab",7,9)>>],
  [t |-> "csrrw t0, 5, t1",  k |-> "Csr",       ops |-> <<Sp("op",0,4), Sp("rd",6,7), Sp("csr",10,10), Sp("rs1",13,14)>>],
  [t |-> "jal ra, end",      k |-> "JumpLink",  ops |-> <<Sp("op",0,2), Sp("rd",4,5), Sp("lab",8,10)>>],
  [t |-> "j end",            k |-> "JumpLink",  ops |-> <<Sp("op",0,0), Sp("lab",2,4)>>],
  [t |-> "b end",            k |-> "JumpLink",  ops |-> <<Sp("op",0,0), Sp("lab",2,4)>>],
  \* every operand form of jalr (the range must reach the last operand whichever it is)
  [t |-> "jalr t0, 16",      k |-> "JumpLinkR", ops |-> <<Sp("op",0,3), Sp("rs1",5,6), Sp("imm",9,10)>>],
  [t |-> "jalr ra, t0, 0",   k |-> "JumpLinkR", ops |-> <<Sp("op",0,3), Sp("rd",5,6), Sp("rs1",9,10), Sp("imm",13,13)>>],
  [t |-> "jalr ra, 4(t0)",   k |-> "JumpLinkR", ops |-> <<Sp("op",0,3), Sp("rd",5,6), Sp("imm",9,9), Sp("rs1",11,12)>>],
  [t |-> "jalr ra, (t0)",    k |-> "JumpLinkR", ops |-> <<Sp("op",0,3), Sp("rd",5,6), Sp("rs1",10,11)>>],
  \* an escape in a character literal: the source is longer than the value; what follows on the line must keep its columns
  [t |-> "li t0, '\\u00e9'", k |-> "IArith",    ops |-> <<Sp("op",0,1), Sp("rd",3,4), Sp("imm",7,14)>>],
  [t |-> "li t1, '\\n'",     k |-> "IArith",    ops |-> <<Sp("op",0,1), Sp("rd",3,4), Sp("imm",7,10)>>]
>>
NS == Len(Stmts)
Indents  == <<"", "    ", "\t", " \t ">>
Comments == <<"", " # trailing comment", "#c">>
TailText == "end:\n    li a7, 10\n    ecall\n"
TailSpans == <<
  [k |-> "Label",  s |-> 0,  e |-> 3,  ops |-> <<Sp("lab",0,3)>>],
  [k |-> "IArith", s |-> 9,  e |-> 17, ops |-> <<Sp("op",9,10), Sp("rd",12,13), Sp("imm",16,17)>>],
  [k |-> "Basic",  s |-> 23, e |-> 27, ops |-> <<Sp("op",23,27)>>] >>

RECURSIVE Rep(_, _)
Rep(s, n) == IF n = 0 THEN "" ELSE s \o Rep(s, n - 1)

Shift(ops, d) == [i \in 1..Len(ops) |-> [role |-> ops[i].role, a |-> ops[i].a + d, b |-> ops[i].b + d]]
Span(st, at) == [k |-> st.k, s |-> at, e |-> at + Len(st.t) - 1, ops |-> Shift(st.ops, at)]

Build(ld, ind, a, b, sm, cm) ==
  LET A == Stmts[a] B == Stmts[b]
      pre  == Rep("\n", ld) \o ind
      atA  == Len(pre)
      mid  == IF sm THEN "  " ELSE cm \o "\n" \o ind
      atB  == atA + Len(A.t) + Len(mid)
      body == pre \o A.t \o mid \o B.t \o cm \o "\n"
      atT  == Len(body)
  IN [text |-> body \o TailText,
      spans |-> <<Span(A, atA), Span(B, atB)>> \o
                [i \in 1..Len(TailSpans) |->
                   [k |-> TailSpans[i].k, s |-> TailSpans[i].s + atT, e |-> TailSpans[i].e + atT,
                    ops |-> Shift(TailSpans[i].ops, atT)]]]

Init == phase = "start" /\ lead = 0 /\ indent = 1 /\ s1 = 1 /\ s2 = 1 /\ same = FALSE /\ comment = 1 /\ inc = FALSE
PickLayout == /\ phase = "start"
              /\ \E ld \in 0..2, ind \in 1..Len(Indents), cm \in 1..Len(Comments) :
                   lead' = ld /\ indent' = ind /\ comment' = cm
              /\ phase' = "layout" /\ UNCHANGED <<s1, s2, same, inc>>
PickStmts == /\ phase = "layout"
             /\ \E a \in 1..NS, b \in 1..NS, sm \in BOOLEAN :
                  s1' = a /\ s2' = b /\ same' = sm
             /\ phase' = "stmts" /\ UNCHANGED <<lead, indent, comment, inc>>
Emit == /\ phase = "stmts"
        /\ \E ic \in BOOLEAN :
             /\ inc' = ic
             /\ LET b == Build(lead, Indents[indent], s1, s2, same, Comments[comment]) IN
                PrintT("CASE " \o ToJson([text |-> b.text, spans |-> b.spans, inc |-> ic,
                                          lead |-> lead, indent |-> indent, s1 |-> s1, s2 |-> s2,
                                          same |-> same, comment |-> comment]))
        /\ phase' = "done" /\ UNCHANGED <<lead, indent, s1, s2, same, comment>>
Next == PickLayout \/ PickStmts \/ Emit
Spec == Init /\ [][Next]_vars
=============================================================================
