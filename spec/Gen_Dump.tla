------------------------------ MODULE Gen_Dump ------------------------------
(* spec -> impl generator for the dump encoding (C19): every kind of fact     *)
(* value and memory location over boundary registers, offsets, labels, CSRs. *)
EXTENDS Integers, Sequences, TLC, Json
VARIABLES phase, kind, item
vars == <<phase, kind, item>>
MinW == -2147483647 - 1
MaxW == 2147483647
Offs == {MinW, -2048, -8, -1, 0, 1, 8, 2047, MaxW}
RegsB == {0, 1, 2, 10, 31}
Csrs == {0, 5, 64, 3072, 4095}
Labs == {"L", "msg", "a_long_label_1"}
\* every singleton, the neighbouring pairs at the ends, the classes, everything, nothing (as sorted sequences)
RECURSIVE Up(_, _)
Up(a, b) == IF a > b THEN <<>> ELSE <<a>> \o Up(a + 1, b)
RegSets == { <<r>> : r \in 0..31 } \cup { <<r, r + 1>> : r \in {0, 1, 15, 29, 30} }
           \cup { <<>>, Up(0, 31), Up(1, 31), Up(5, 7) \o Up(28, 31), <<8, 9>> \o Up(18, 27), Up(10, 17) }
V(t, r, n, s) == [t |-> t, r |-> r, n |-> n, s |-> s]
Values(k) ==
  CASE k = "c"   -> { V("c", -1, n, "") : n \in Offs }
    [] k = "a"   -> { V("a", -1, 0, s) : s \in Labs }
    [] k = "m"   -> { V("m", -1, n, s) : n \in Offs, s \in Labs }
    [] k \in {"rs", "ors", "mr", "omr"} -> { V(k, r, n, "") : r \in RegsB, n \in Offs }
    [] k = "csr" -> { V("csr", c, 0, "") : c \in Csrs }
    [] k = "mc"  -> { V("mc", c, n, "") : c \in Csrs, n \in Offs }
    [] k = "so"  -> { [t |-> "so", c |-> -1, o |-> n] : n \in Offs }
    [] k = "lcsr" -> { [t |-> "csr", c |-> c, o |-> 0] : c \in Csrs }
    [] k = "csro" -> { [t |-> "csro", c |-> c, o |-> n] : c \in Csrs, n \in Offs }
    [] k = "regset" -> { [t |-> "regset", regs |-> rs] : rs \in RegSets }
Kinds == {"c", "a", "m", "rs", "ors", "mr", "omr", "csr", "mc", "so", "lcsr", "csro", "regset"}
Init == phase = "start" /\ kind = "" /\ item = <<>>
PickKind == phase = "start" /\ \E k \in Kinds : kind' = k /\ phase' = "kind" /\ item' = item
Emit == /\ phase = "kind"
        /\ \E v \in Values(kind) :
             /\ item' = v
             /\ PrintT("CASE " \o ToJson([loc |-> kind \in {"so", "lcsr", "csro"}, set |-> kind = "regset", v |-> v]))
        /\ phase' = "done" /\ kind' = kind
Next == PickKind \/ Emit
Spec == Init /\ [][Next]_vars
=============================================================================
