#!/usr/bin/env python3
"""Writes seeded/SUMMARY.md and the table of DESIGN.md §14 (between the SEED-TABLE markers) from seeded/*/meta.json."""
import json, os, re
VERIF = os.path.dirname(os.path.dirname(os.path.abspath(__file__)))
NEEDS2 = {
 "C01-3": "div/rem of the known constants i32::MIN and -1 (checked_div(..).unwrap_or(-1))",
 "C01-4": "sp moved by an unknown amount, store through sp, sp recovered from a frame pointer, reload (forgotten invalidation of all slots)",
 "C01-5": "bgez / bge rs, zero treated as always taken: claims at the target ignore executions with a negative operand",
 "C02-3": "callee defined above its caller (or recursion): live-in of a call site not recomputed when only the callee's entry changed",
 "C02-4": "liveness computed before the last ecall-termination round (an exit recognised only by the second value analysis)",
 "C02-5": "two functions sharing an epilogue whose return is owned by the earlier one, the later one also has a return of its own, callers read different results",
 "C03-3": "bgeu zero, rX, L (bleu rX, zero, L) treated as a jump: fall-through edge missing",
 "C03-4": "dead code containing a branch/jump to a label further away (stale predecessor after dead-code elimination)",
 "C03-5": "exit ecall reached by a jump carrying its own a7, textually after another exit (second termination before second value analysis)",
 "C04-3": "bottom-tested loop (body entered only by a backward branch) inside a function with a frame",
 "C04-4": "ecall whose result register is also an argument (9, 17, 41-43, 50, 54, 62-64, 1024)",
 "C04-5": "wrapper-like callee (ecall or nested call produces the result, handed back untouched) and a caller reading it with an ordinary instruction",
 "C05-3": "first use of the offending register is a read-modify-write of that register",
 "C05-4": "stack access at/above entry sp that is a store of the zero register",
 "C05-5": "function with two returns, violation on the path to the later one (exit lost a predecessor)",
 "C06-3": "CRLF file with a diagnostic on the end-of-line token (pretty printer) - neutralised by 98c3673",
 "C06-4": "sp moved close to i32::MAX by a known constant, word store, then byte/half store through sp (overflow in slot range)",
 "C06-5": "include cycle / self-inclusion linted from another directory than the files' (loops forever)",
 "C07-3": "stray character that is the last character of an LF-terminated line (swallows the newline)",
 "C07-4": "final line `jalr t0` without trailing newline (base or included file)",
 "C07-5": "malformed line and a CFG-level error in the same input, through the CLI (parse errors forgotten)",
 "C08-3": "div/rem folding of i32::MIN / -1",
 "C08-4": "jalr with one register and a bare immediate (built as rd, zero, imm)",
 "C08-5": "read set empty whenever the destination is x0 (jr rs, csrw rs, lw zero, ...)",
 "C09-3": "\\uXXXX escape followed by more reported text on the same line (column 4 too small)",
 "C09-4": "two-operand `jalr rs1, imm`: the range ends before the last operand",
 "C09-5": "jump to a function in another file: file of the diagnostic taken from the jump, range from the function",
 "C10-3": "function with two returns on the two arms of a branch (exit chosen by hash-order traversal index)",
 "C10-4": "two functions sharing code that overwrites two callee-saved registers (non-adjacent duplicates survive dedup)",
 "C10-5": "two or more included files each with a diagnostic (order by random file id)",
 "C11-3": "several labels on one entry where the called label is not the last one",
 "C11-4": "interleaved bodies with a shared tail: another function's exit rewritten into a jump",
 "C11-5": "exit ecall path inside a function followed by more code (markup before termination)",
 "C12-3": "block of >= 2 instructions reached only from code further down inside a cycle with two backward edges (never terminates)",
 "C12-4": "two returns of one function in two files at identical offsets (exit chosen by traversal order)",
 "C12-5": "dead code jumping into a block that ends in an exit ecall with a different a7, code after that ecall",
 "C13-3": "mixed-case mnemonic whose first letter is lower case (aDDi, lI)",
 "C13-4": "jalr written with parentheses and no offset (link and base swapped)",
 "C13-5": "nop recognised by the text of its mnemonic (NOP / addi x0,x0,0 differ)",
 "C14-3": "t5 and t6 both in one register set (iterator drops x31 after x30)",
 "C14-4": "entry with two labels owned by two functions, renaming that inverts the alphabetical order of the labels",
 "C14-5": "word store/load whose base register is s0 (accepted as stack pointer)",
 "C15-3": "two included files each overwriting a callee-saved register at the identical line/column/offset",
 "C15-4": "--all-files with pretty/compact output and a diagnostic outside the base file (still announced as hidden)",
 "C15-5": "failing include whose closing quote is directly followed by the newline and a non-empty next line (next line skipped)",
 "C16-3": "duplicate label whose second definition is never followed by an instruction, or adjacent to the first",
 "C16-4": "undefined label used only by `jal rd, label` with rd other than zero/ra",
 "C16-5": "one-instruction dead loops outnumbering all other nodes (sweep limit gives 'Unexpected error', nil file)",
 "C17-3": "negative hex/binary literal with magnitude 0x80000001..0xFFFFFFFF (wrapped)",
 "C17-4": "\\u escape whose first 'digit' is '+' (from_str_radix accepts it)",
 "C17-5": "lui/auipc operand 0x80000..0xFFFFF rejected, -0x80000..-1 accepted",
 "C18-3": "CFG error plus a parse error located after it (CFG error appended unsorted)",
 "C18-4": "diagnostic on one-indexed line 10, 100, ... in pretty output (gutter width from the zero-indexed number)",
 "C18-5": "two different diagnostics on an identical range (library entry point dedups by file+range)",
 "C19-3": "CSR-relative memory location with a negative offset (sign eaten on reload)",
 "C19-4": "node owned by two functions whose exits are in the opposite order of their entries (entry/exit lists sorted separately)",
 "C19-5": "x30 and x31 in the same register set (x31 dropped from the dump)",
}
NEEDS3 = {
 "C01-6": "sltiu rd, x0, imm with a negative immediate (folded with the signed formula)",
 "C01-7": "sp loaded from another register's entry value (addi sp, s0, 0), stored through, restored, slot reloaded (stack_offset() without the base check)",
 "C01-8": "sub sp, sp, tN with a known constant in tN (operands of the entry-value rule swapped)",
 "C02-6": "conditional branch to a function label with a caller-saved register live on the fall-through path",
 "C02-7": "callee whose result comes from an ecall or a nested call (returns() intersected with defs)",
 "C02-8": "two exit ecalls: the termination pass returns after the first one it meets",
 "C03-6": "unconditional jump to the very next line (its only edge is skipped)",
 "C03-7": "exit ecall whose textual successor is a ret that is also reached another way (edge kept)",
 "C03-8": "dead code that falls into other code (dead node keeps its successors)",
 "C04-6": "frame allocated with li tN, c; sub sp, sp, tN",
 "C04-7": "ecall whose result register is also an argument (sbrk)",
 "C04-8": "function entry with two labels (alias, or a data label pending before the function) counted as two functions",
 "C05-6": "first use of the offending register is a read-modify-write of that register",
 "C05-7": "write to x0 without a source register: li zero, 4 / la zero, buf / lui zero, 1",
 "C05-8": "violation on the path to a return other than the first (exit lost a predecessor)",
 "C06-6": "known sp offset <= 0 plus a load/store offset whose sum leaves the i32 range (stack lint)",
 "C06-7": "include cycle that does not go through the base file and is spelled ./b.s (never terminates)",
 "C06-8": "pretty output, diagnostic on a short line indented with multi-byte whitespace",
 "C07-6": "identical parse errors at the same position in the base file and an included file (dedup without the file)",
 "C07-7": "stray non-ASCII character at the end of a line (eats the newline / start of the next line)",
 "C07-8": "final line lw rd, imm / sw rs, imm / jalr rs, imm without newline",
 "C08-6": "div/rem folding of i32::MIN / -1",
 "C08-7": "jal t0, label: kill set empty although t0 is written",
 "C08-8": "bleu expanded to the signed bge",
 "C09-6": "file without trailing newline whose last token is a symbol (end one past the file)",
 "C09-7": "j label / b label at offset 0 of a base or included file (range shrinks to the label)",
 "C09-8": "CR LF file through the rva binary (raw offsets of the normalised text)",
 "C10-6": "two equal reports with another report between them in emission order (dedup before sort)",
 "C10-7": "two included files each with a stack problem (lint iterates files in uuid order and stops at the first)",
 "C10-8": "--all-files in a text mode with two included files that have diagnostics (grouped in a HashMap)",
 "C11-6": "handler installed with csrrw t0, utvec, t0 (rd == rs1)",
 "C11-7": "callee containing an exit ecall followed by other code (functions marked before the edges are cut)",
 "C11-8": "function that jumps into the tails of two other functions (foreign exit rewritten)",
 "C12-6": "ecall whose a7 is 93 on the fall-through of an earlier exit and 10 on the other path (cut first, recompute after)",
 "C12-7": "sw/lw through a CSR-held address where the load is also reached from the fall-through of an exit (skipped recomputation)",
 "C12-8": "function with two or more returns in different branch arms (no position tie-break)",
 "C13-6": "lui-built constant meeting the same constant built with li (immediate shifted twice)",
 "C13-7": "jalr written with parentheses and no offset",
 "C13-8": "-2147483648 / -0x80000000 (magnitude checked instead of the signed value)",
 "C14-6": "entry with two labels owned by two functions, renaming that changes their alphabetical order",
 "C14-7": "top-level code reading two unassigned registers in one instruction (only the last one's use reported)",
 "C14-8": "x30 and x31 in one register set (iterator)",
 "C15-6": "include depth 2 with the includer outside the base file's directory (resolved against the base file)",
 "C15-7": "include cycle that returns under a different spelling (../main.s) through the CLI reader",
 "C15-8": "two included files overwriting a callee-saved register at the identical position",
 "C16-6": "duplicate label whose second definition has no instruction behind it / is adjacent to the first",
 "C16-7": "undefined label used only by jal rd, label with rd other than zero/ra",
 "C16-8": "jump or branch to a label at end of file or to a data label (generic error, nil file)",
 "C17-6": "out-of-range or malformed literal in an operand slot that falls back to a label (lw/sw address, jal/branch target)",
 "C17-7": "0B prefix (upper case) of a binary literal",
 "C17-8": "lui/auipc operand 0x80000..0xFFFFF rejected, negative accepted",
 "C18-6": "diagnostic on one-indexed line 10, 100, ... in pretty output",
 "C18-7": "--all-files, more than 20 diagnostics, base file not first by name (unstable sort)",
 "C18-8": "parse error plus a CFG error through the library entry point (parse errors dropped)",
 "C19-6": "node owned by two functions whose exits are in the opposite order of their entries",
 "C19-7": "CSR-relative memory location with a negative offset",
 "C19-8": "x31 in any register set of the dump",
}
NEEDS2.update(NEEDS3)
FIRST3_CAUGHT = {'C01-7', 'C01-8', 'C02-7', 'C03-6', 'C03-7', 'C03-8', 'C04-7', 'C05-6', 'C05-7', 'C05-8', 'C06-6', 'C06-8', 'C07-8', 'C08-6', 'C08-8', 'C09-6', 'C09-7', 'C10-6', 'C10-7', 'C10-8', 'C11-7', 'C12-6', 'C12-8', 'C13-7', 'C14-6', 'C14-8', 'C15-7', 'C15-8', 'C16-6', 'C16-7', 'C16-8', 'C17-6', 'C17-7', 'C17-8', 'C18-6', 'C18-7', 'C18-8', 'C19-6', 'C19-7', 'C19-8'}
FIRST2_CAUGHT = FIRST3_CAUGHT | {"C01-4", "C02-3", "C02-4", "C03-3", "C03-4", "C03-5", "C05-3", "C06-5", "C07-3", "C07-4", "C08-3", "C08-4", "C08-5",
                 "C10-3", "C10-4", "C10-5", "C11-3", "C11-4", "C11-5", "C12-5", "C13-4", "C13-5", "C14-3", "C15-3", "C15-5", "C16-3",
                 "C17-3", "C17-5", "C18-3", "C18-4", "C18-5", "C19-3", "C19-5"}


FIRST4_CAUGHT = {"C01-9", "C01-10", "C02-9", "C02-10", "C02-11", "C03-9", "C04-9", "C04-10", "C04-11", "C05-11", "C06-9", "C06-10", "C06-11",
                 "C07-9", "C07-10", "C07-11", "C08-10", "C08-11", "C09-10", "C10-9", "C10-10", "C10-11", "C11-9", "C11-10", "C13-10", "C13-11",
                 "C14-10", "C14-11", "C15-11", "C16-10", "C17-10", "C18-10", "C18-11", "C19-9", "C19-10", "C19-11"}
FIRST2_CAUGHT |= FIRST4_CAUGHT


def needs_from_notes(d):
    """round 4: the one-line title the author gave the change in its notes"""
    dd = os.path.join(VERIF, "seeded", d)
    for f in sorted(os.listdir(dd)):
        if f.startswith("notes") and f.endswith(".md"):
            for line in open(os.path.join(dd, f)):
                m = re.match(r"^#+\s*Change \d+\s*[-:\u2013\u2014]+\s*(.*)$", line.strip())
                if m:
                    return m.group(1).replace("|", "/").strip()[:220]
    return ""


def main():
    rows = []
    for d in sorted(os.listdir(os.path.join(VERIF, "seeded"))):
        mp = os.path.join(VERIF, "seeded", d, "meta.json")
        if not os.path.exists(mp):
            continue
        m = json.load(open(mp))
        rnd = m.get("round", 1)
        needs = m.get("needs") or NEEDS2.get(d, "") or needs_from_notes(d)
        if d in NEEDS2 and m.get("needs") != NEEDS2[d]:
            m["needs"] = NEEDS2[d]
            json.dump(m, open(mp, "w"), indent=1)
        caught = m.get("caught_by", [])
        if m.get("neutralised"):
            hist = "neutralised: " + m["neutralised"]
        elif rnd == 1:
            hist = "missed -> caught after strengthening" if m.get("strengthening") else "caught"
        else:
            hist = "caught" if d in FIRST2_CAUGHT else "missed -> caught after strengthening"
        rows.append((d, m.get("property", d[:3]), rnd, needs, ", ".join(caught) if caught else "-", hist))
    head = "| change | property | round | needs | caught by | history |\n|---|---|---|---|---|---|\n"
    table = head + "".join("| %s | %s | %d | %s | %s | %s |\n" % r for r in rows)
    n = len(rows)
    ncaught = sum(1 for r in rows if r[4] != "-")
    open(os.path.join(VERIF, "seeded", "SUMMARY.md"), "w").write(
        "# Seeded changes\n\n%d changes written by independent sub-agents (each given only the text of one property and a scratch worktree), "
        "all confirmed (compiles, the existing tests pass, the agent's demonstration fails with the change and passes without) on the tree they were written for.\n"
        "%d are caught by at least one check (quick tier) on the current tree; the others are marked neutralised (a later repair of the repository removed the code they change).\n\n" % (n, ncaught)
        + table + "\nDetails of each strengthening are in the `strengthening` field of the change's meta.json (round 1) and in DESIGN.md §14 (round 2).\n")
    dp = os.path.join(VERIF, "DESIGN.md")
    s = open(dp).read()
    a, b = "<!-- SEED-TABLE-BEGIN -->", "<!-- SEED-TABLE-END -->"
    if a in s and b in s:
        s = s[:s.index(a) + len(a)] + "\n" + table + s[s.index(b):]
        open(dp, "w").write(s)
    print("seeds:", n, "caught:", ncaught)


if __name__ == "__main__":
    main()
