---------------------------- MODULE Gen_Overflow ----------------------------
(* spec -> impl generator of arithmetic-boundary programs (C06): every        *)
(* program shape that makes the analyzer compute with program constants      *)
(* (folding, immediates, stack-pointer arithmetic, memory offsets, data      *)
(* values) x the boundary grid of Words.tla.                                 *)
EXTENDS Words, Sequences, TLC, Json
VARIABLES phase, shape, x, y
vars == <<phase, shape, x, y>>
Shapes == {"fold-add", "fold-sub", "fold-mul", "fold-mulh", "fold-mulhu", "fold-mulhsu", "fold-div", "fold-divu", "fold-rem",
           "fold-remu", "fold-sll", "fold-srl", "fold-sra", "fold-slt", "fold-sltu", "fold-and", "fold-or", "fold-xor",
           "addi-chain", "shift-imm", "sp-arith", "sp-offset", "orig-offset", "neg-not", "lui-addi", "data-word", "csr-imm", "stack-slot-math", "sp-far", "sp-far-call", "mem-offset"}
Small == { v \in Boundary : v >= -2048 /\ v <= 2047 }
I(v) == ToString(v)
Prog(sh, a, b) ==
  LET pre == "main:\n    li t0, " \o I(a) \o "\n    li t1, " \o I(b) \o "\n"
      post == "    li a7, 10\n    ecall\n"
      fold(op) == pre \o "    " \o op \o " t2, t0, t1\n    " \o op \o " t3, t2, t0\n    mv a0, t3\n" \o post
  IN
  CASE sh \in {"fold-add", "fold-sub", "fold-mul", "fold-mulh", "fold-mulhu", "fold-mulhsu", "fold-div", "fold-divu", "fold-rem",
               "fold-remu", "fold-sll", "fold-srl", "fold-sra", "fold-slt", "fold-sltu", "fold-and", "fold-or", "fold-xor"}
         -> fold(SubSeq(sh, 6, Len(sh)))
    [] sh = "addi-chain" -> "main:\n    li t0, " \o I(a) \o "\n    addi t0, t0, " \o I(b) \o "\n    addi t0, t0, " \o I(b) \o "\n    mv a0, t0\n" \o post
    [] sh = "shift-imm"  -> "main:\n    li t0, " \o I(a) \o "\n    slli t1, t0, " \o I(b) \o "\n    srai t2, t1, " \o I(b) \o "\n    srli a0, t2, " \o I(b) \o "\n" \o post
    [] sh = "sp-arith"   -> "main:\n    addi sp, sp, " \o I(a) \o "\n    addi sp, sp, " \o I(b) \o "\n    sw ra, 0(sp)\n    lw ra, 0(sp)\n" \o post
    [] sh = "sp-offset"  -> "main:\n    addi sp, sp, " \o I(a) \o "\n    sw t0, " \o I(b) \o "(sp)\n    lw t1, " \o I(b) \o "(sp)\n    sb t0, " \o I(b) \o "(sp)\n" \o post
    [] sh = "sp-far"     -> "main:\n    li t0, " \o I(a) \o "\n    add sp, sp, t0\n    sw t1, " \o I(b) \o "(sp)\n    sb t1, " \o I(b) \o "(sp)\n    sh t1, " \o I(b) \o "(sp)\n    lw t2, " \o I(b) \o "(sp)\n    lbu t3, " \o I(b) \o "(sp)\n" \o post
    [] sh = "sp-far-call" -> "main:\n    li t0, " \o I(a) \o "\n    add sp, sp, t0\n    sw ra, " \o I(b) \o "(sp)\n    call f\n    lw ra, " \o I(b) \o "(sp)\n    sub sp, sp, t0\n" \o post \o "f:\n    addi sp, sp, -4\n    sw s0, 0(sp)\n    lw s0, 0(sp)\n    addi sp, sp, 4\n    ret\n"
    [] sh = "mem-offset" -> "main:\n    addi sp, sp, " \o I(b) \o "\n    lw a0, " \o I(a) \o "(sp)\n    sw a0, " \o I(a) \o "(sp)\n    sb a0, " \o I(a) \o "(sp)\n    lw a1, " \o I(a) \o "(t0)\n" \o post
    [] sh = "orig-offset" -> "main:\n    li t0, " \o I(a) \o "\n    add t1, sp, t0\n    add t2, t1, t0\n    sub t3, t2, t0\n    lw a0, " \o I(b) \o "(t1)\n" \o post
    [] sh = "neg-not"    -> "main:\n    li t0, " \o I(a) \o "\n    neg t1, t0\n    not t2, t1\n    sub t3, zero, t0\n    mv a0, t3\n" \o post
    [] sh = "lui-addi"   -> "main:\n    lui t0, " \o I(a) \o "\n    addi t0, t0, " \o I(b) \o "\n    mv a0, t0\n" \o post
    [] sh = "data-word"  -> ".data\nv: .word " \o I(a) \o ", " \o I(b) \o "\n.byte " \o I(a) \o "\n.space " \o I(b) \o "\n.align " \o I(b) \o "\n.text\nmain:\n" \o post
    [] sh = "csr-imm"    -> "main:\n    csrrwi t0, " \o I(a) \o ", " \o I(b) \o "\n    csrr t1, " \o I(a) \o "\n    csrw t1, " \o I(b) \o "\n" \o post
    [] sh = "stack-slot-math" -> "main:\n    addi sp, sp, -16\n    li t0, " \o I(a) \o "\n    sw t0, 4(sp)\n    sw zero, 8(sp)\n    lw t1, 4(sp)\n    addi t1, t1, " \o I(b) \o "\n    sw t1, 4(sp)\n    addi sp, sp, 16\n" \o post
Args(sh) ==
  CASE sh \in {"addi-chain", "sp-offset", "orig-offset", "lui-addi", "stack-slot-math", "sp-far", "sp-far-call", "mem-offset"} -> Boundary \X Small
    [] sh = "shift-imm" -> Boundary \X {0, 1, 31}
    [] sh = "sp-arith" -> Small \X Small
    [] sh = "neg-not" -> Boundary \X {0}
    [] sh = "csr-imm" -> {0, 1, 5, 4095, 4096, -1} \X {0, 1, 31, 32, -1}
    [] OTHER -> Boundary \X Boundary
Init == phase = "start" /\ shape = "" /\ x = 0 /\ y = 0
PickShape == phase = "start" /\ \E sh \in Shapes : shape' = sh /\ phase' = "args" /\ UNCHANGED <<x, y>>
Emit == /\ phase = "args"
        /\ \E p \in Args(shape) :
             /\ x' = p[1] /\ y' = p[2]
             /\ PrintT("CASE " \o ToJson([shape |-> shape, x |-> p[1], y |-> p[2], text |-> Prog(shape, p[1], p[2])]))
        /\ phase' = "done" /\ shape' = shape
Next == PickShape \/ Emit
Spec == Init /\ [][Next]_vars
=============================================================================
