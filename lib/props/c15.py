""".include behaves as textual inclusion with per-file locations (C15)."""
import os
import re
import subprocess
import tempfile
from vlib import *
import corpus

PID = "C15"
BASES = [
    corpus.VIOLATING,
    "main:\n    li t0, 1\n    li t0, 2\n    lw t1, 4(sp)\n    call f\n    mv a1, t0\n    li a7, 10\n    ecall\nf:\n    li s1, 3\n    addi zero, zero, 1\n    mv a0, t2\n    ret\nunused:\n    li a2, 2\n",
    "main:\n    li a0\n    addi zero, zero, 1\n    li t5, 3\n    frobnicate a0\n    li a7, 10\n    ecall\nafter:\n    li t1, 1\n    j after\n    li t2, 2\n    li t3\n",
    corpus.CONFORMING,
    # two functions with the same shape: cut into two files they have diagnostics at the same line and columns
    "main:\n    call fa\n    call fb\n    li a7, 10\n    ecall\nfa:\n    li s0, 1\n    ret\nfb:\n    li s1, 2\n    ret\n",
]


def build(lines, plan):
    """files (name -> list of lines), fault info"""
    a, b = plan["s1"]
    c, d = plan["s2"]
    e, f = plan["s3"]
    main = lines[:a - 1] + ['.include "f1.s"']
    f1 = lines[a - 1:b]
    files = {}
    if c:
        files["f2.s"] = lines[c - 1:d]
        f1 = lines[a - 1:c - 1] + ['    .include "f2.s"'] + lines[d:b]
    rest = lines[b:]
    if e:
        files["f3.s"] = lines[e - 1:f]
        rest = lines[b:e - 1] + ['.include "f3.s"  # tail'] + lines[f:]
    main += rest
    files["main.s"] = main
    files["f1.s"] = f1
    info = {"fault": plan["fault"], "dirfile": "main.s", "dirline": a - 1}
    if plan["fault"] == "self":
        files["f1.s"] = f1 + ['.include "f1.s"']
        info.update(dirfile="f1.s", dirline=len(f1))
    elif plan["fault"] == "cycle":
        files["f1.s"] = f1 + ['.include "main.s"']
        info.update(dirfile="f1.s", dirline=len(f1))
    return files, info


def text_of(name, files, plan):
    k = {"main.s": 0, "f1.s": 1, "f2.s": 2, "f3.s": 3}[name]
    return "\n".join(files[name]) + ("\n" if plan["nl"][k] else "")


def flatten(name, texts):
    out = []
    for ln in texts[name].split("\n"):
        m = re.match(r'^\s*\.include "([^"]+)"', ln)
        if m and m.group(1) in texts and m.group(1) != name:
            out += flatten(m.group(1), texts)
        else:
            out.append(ln)
    return out


def diag(it, names):
    fn = names[it["file"] - 1] if 1 <= it["file"] <= len(names) else ""
    return {"title": it["title"], "level": it["level"], "file": fn, "line": it["l0"], "c0": it["c0"], "c1": it["c1"],
            "kind": it["title"].split(":")[0]}


def run(tier, replay=None):
    out = Outcome(PID, tier)
    wd = os.path.join(WORK, PID)
    rvh = build_harness()
    rva = build_cli()
    sim = run_tlc("Gen_Include", simulate=(120 if tier == "quick" else 5000), depth=5, workers=4, seed_=seed() * 29 + 7)
    out.add_tlc(sim)
    plans = [json.loads(x) for x in dict.fromkeys(json.dumps(p, sort_keys=True) for p in sim.tagged("CASE"))]
    cases = []
    for i, p in enumerate(plans):
        base = BASES[i % len(BASES)]
        lines = base.rstrip("\n").split("\n")
        files, info = build(lines, p)
        texts = {n: text_of(n, files, p) for n in files}
        cases.append((p, info, texts))
    # explicit plans for the twin-function base: both functions moved into files of their own
    twin = BASES[-1].rstrip("\n").split("\n")
    for nl in ([True] * 4, [False] * 4, [True, False, False, True]):
        for s1, s3 in (([6, 8], [9, 11]), ([7, 8], [10, 11]), ([6, 7], [9, 10])):
            p = {"s1": s1, "s2": [0, 0], "s3": s3, "nl": list(nl), "fault": "none", "n": 11}
            files, info = build(twin, p)
            cases.append((p, info, {n: text_of(n, files, p) for n in files}))
    # files that hold text at identical positions (lints and parse errors on the same line/column of two files)
    for f in corpus.TWIN_FILES:
        cases.append(({"fault": "none", "explicit": True}, {"fault": "none"}, dict(f)))
    if replay:
        w = json.load(open(replay))["witness"]
        cases = [(w["plan"], w["info"], w["texts"])]
    hc = []
    for i, (p, info, texts) in enumerate(cases):
        mem = dict(texts)
        faults = {}
        if info["fault"] == "notfound":
            mem.pop("f1.s")
        if info["fault"] == "io":
            faults["f1.s"] = "io"
        hc.append({"id": 3 * i + 1, "mode": "observe", "files": mem, "faults": faults, "base": "main.s", "want": ["items"]})
        if info["fault"] == "none":
            hc.append({"id": 3 * i + 2, "mode": "observe", "files": {"main.s": "\n".join(flatten("main.s", texts))},
                       "base": "main.s", "want": ["items"]})
        else:
            tw = dict(mem)
            ls = tw[info["dirfile"]].split("\n")
            ls[info["dirline"]] = ""          # the directive's line becomes blank: no other line moves
            tw[info["dirfile"]] = "\n".join(ls)
            hc.append({"id": 3 * i + 2, "mode": "observe", "files": tw, "base": "main.s", "want": ["items"]})
        hc.append({"id": 3 * i + 3, "mode": "observe", "text": "nop\n", "want": []})
    tp, hevs = run_harness_par(rvh, hc, wd, "inc")
    evs = []
    ncli = 0
    with tempfile.TemporaryDirectory(dir=WORK) as td:
        for i, (p, info, texts) in enumerate(cases):
            a, bb = hevs[3 * i], hevs[3 * i + 1]
            d = os.path.join(td, str(i))
            dt = os.path.join(td, str(i) + "t")
            os.makedirs(d)
            os.makedirs(dt)
            for n, t in texts.items():
                if n == "f1.s" and info["fault"] == "notfound":
                    continue
                if n == "f1.s" and info["fault"] == "io":
                    os.makedirs(os.path.join(d, n))
                    os.makedirs(os.path.join(dt, n))
                    continue
                open(os.path.join(d, n), "w").write(t)
                tt = t
                if info["fault"] != "none" and n == info["dirfile"]:
                    ls = t.split("\n")
                    ls[info["dirline"]] = ""
                    tt = "\n".join(ls)
                open(os.path.join(dt, n), "w").write(tt)

            def cli(dirp, *flags):
                nonlocal ncli
                ncli += 1
                try:
                    q = subprocess.run([rva, "lint", os.path.join(dirp, "main.s")] + list(flags), stdout=subprocess.PIPE,
                                       stderr=subprocess.DEVNULL, timeout=10)
                except subprocess.TimeoutExpired:
                    return None
                return q.stdout.decode("utf-8", "replace")

            def from_json(o, dirp):
                res = []
                for x in json.loads(o)["diagnostics"]:
                    f = x["file"] or ""
                    fn = os.path.relpath(f, os.path.realpath(dirp)) if f else ""
                    res.append({"title": x["title"], "level": x["level"], "file": fn, "line": x["range"]["start"]["line"],
                                "c0": x["range"]["start"]["column"], "c1": x["range"]["end"]["column"],
                                "kind": x["title"].split(":")[0]})
                return res

            def from_compact(o, dirp):
                res = []
                for line in o.splitlines():
                    m = re.match(r"^(Error|Warning|Info|Hint): (.*) in (.*) at (\d+) (\d+):(\d+)$", line)
                    if m:
                        fn = os.path.relpath(m.group(3), os.path.realpath(dirp)) if m.group(3).startswith("/") else m.group(3)
                        res.append({"title": m.group(2), "level": m.group(1), "file": fn, "line": int(m.group(4)) - 1,
                                    "c0": int(m.group(5)) - 1, "c1": int(m.group(6)) - 1, "kind": m.group(2).split(":")[0]})
                return res
            ev = {"ev": "inc", "id": i + 1, "case": info,
                  "tree": {n: [({"t": "inc", "f": m.group(1)} if (m := re.match(r'^\s*\.include "([^"]+)"', ln)) else {"t": "l", "f": ""})
                               for ln in t.split("\n")] for n, t in texts.items()},
                  "lib_ev": a["ev"], "lib": [], "flat": [], "lib_twin": [], "cli_ev": "ok", "cli_all": [], "cli_base": [],
                  "cli_hidden": 0, "cli_twin": [], "cli_af": [], "cli_af_hidden": 0}
            if a["ev"] == "obs":
                ev["lib"] = [diag(it, a["item_files"]) for it in a["items"]]
            if bb["ev"] == "obs":
                key = "flat" if info["fault"] == "none" else "lib_twin"
                ev[key] = [diag(it, bb["item_files"]) for it in bb["items"]]
            oj = cli(d, "--json")
            if oj is None:
                ev["cli_ev"] = "timeout"
            else:
                try:
                    ev["cli_all"] = from_json(oj, d)
                    oc = cli(d, "--compact", "--no-color") or ""
                    ev["cli_base"] = from_compact(oc, d)
                    h = re.search(r"(\d+) diagnostics? found in other files", oc)
                    ev["cli_hidden"] = int(h.group(1)) if h else 0
                    oa = cli(d, "--compact", "--no-color", "--all-files") or ""
                    ev["cli_af"] = from_compact(oa, d)
                    ha = re.search(r"(\d+) diagnostics? found in other files", oa)
                    ev["cli_af_hidden"] = int(ha.group(1)) if ha else 0
                    if info["fault"] != "none":
                        ot = cli(dt, "--json")
                        ev["cli_twin"] = from_json(ot, dt) if ot else []
                    elif i % 3 == 0 or p.get("explicit"):
                        # the same tree with every include spelled as an absolute path: nothing may change
                        da = os.path.join(td, str(i) + "a")
                        os.makedirs(da)
                        for n, t in texts.items():
                            open(os.path.join(da, n), "w").write(
                                re.sub(r'(\.include ")([^"/][^"]*")', lambda m: m.group(1) + os.path.realpath(da) + "/" + m.group(2), t))
                        oja = cli(da, "--json")
                        oca = cli(da, "--compact", "--no-color") or ""
                        ev["abs_run"] = oja is not None
                        ev["abs_all"] = from_json(oja, da) if oja else []
                        ev["abs_base"] = from_compact(oca, da)
                        hh = re.search(r"(\d+) diagnostics? found in other files", oca)
                        ev["abs_hidden"] = int(hh.group(1)) if hh else 0
                except (ValueError, KeyError):
                    ev["cli_ev"] = "bad-json"
            # the IO fault reads differently through the two readers: normalise the message of reader errors to its kind
            for kk in ("abs_run", "abs_all", "abs_base", "abs_hidden"):
                ev.setdefault(kk, {"abs_run": False, "abs_hidden": 0}.get(kk, []))
            for kk in ("lib", "cli_all", "cli_base", "cli_af", "lib_twin", "cli_twin", "flat", "abs_all", "abs_base"):
                for x in ev[kk]:
                    if x["kind"] in ("File not found", "IO Error", "Cyclic dependency"):
                        x["title"] = x["kind"]
                    # which parse error a malformed line gets (and its columns) may depend on whether the
                    # line is the last of its file; that it is reported on its line is what is compared
                    if x["title"].startswith("Expected ") or x["title"] in ("Unexpected token", "Unknown directive",
                                                                           "Unsupported operation", "Invalid string"):
                        x["title"], x["c0"], x["c1"] = "(parse error)", 0, 0
            evs.append(ev)
    with tempfile.TemporaryDirectory(dir=WORK) as td:
        for k, (util_tail, main_tail) in enumerate((("", ""), ("    li t0, 1\n", "    li a7, 10\n    ecall\n"))):
            for sub in ("lib", "a/b"):
                up = "/".join([".."] * len(sub.split("/")))
                texts = {"main.s": f'main:\n    li t1, 2\n.include "{sub}/util.s"\n' + main_tail,
                         f"{sub}/util.s": f'helper:\n{util_tail}.include "{up}/main.s"\n    li t2, 3\n'}
                dd, dt = os.path.join(td, f"c{k}{sub.replace('/', '_')}"), os.path.join(td, f"t{k}{sub.replace('/', '_')}")
                for base_dir, blank in ((dd, False), (dt, True)):
                    for n, t in texts.items():
                        fp = os.path.join(base_dir, n)
                        os.makedirs(os.path.dirname(fp), exist_ok=True)
                        if blank and n.endswith("util.s"):
                            t = "\n".join("" if ".include" in ln else ln for ln in t.split("\n"))
                        open(fp, "w").write(t)

                def run_json(dirp):
                    try:
                        q = subprocess.run([rva, "lint", os.path.join(dirp, "main.s"), "--json"], stdout=subprocess.PIPE, stderr=subprocess.DEVNULL, timeout=10)
                    except subprocess.TimeoutExpired:
                        return None
                    res = []
                    for x in json.loads(q.stdout.decode("utf-8", "replace"))["diagnostics"]:
                        f = x["file"] or ""
                        fn = os.path.relpath(os.path.realpath(f), os.path.realpath(dirp)) if f else ""
                        kind = x["title"].split(":")[0]
                        title = kind if kind in ("File not found", "IO Error", "Cyclic dependency") else x["title"]
                        res.append({"title": title, "level": x["level"], "file": fn, "line": x["range"]["start"]["line"],
                                    "c0": x["range"]["start"]["column"], "c1": x["range"]["end"]["column"], "kind": kind})
                    return res
                ncli += 2
                a_, t_ = run_json(dd), run_json(dt)
                utext = texts[f"{sub}/util.s"].split("\n")
                info = {"fault": "cycle-through-subdirectory", "dirfile": f"{sub}/util.s", "dirline": [i for i, ln in enumerate(utext) if ".include" in ln][0]}
                ev = {"ev": "inc", "id": len(evs) + 1, "case": info, "tree": {}, "lib_ev": "obs", "lib": [], "flat": [], "lib_twin": [],
                      "cli_ev": "ok" if a_ is not None and t_ is not None else "timeout", "cli_all": a_ or [], "cli_base": [], "cli_hidden": 0,
                      "cli_twin": t_ or [], "cli_only": True}
                # the library side is not exercised for this case: make it trivially consistent (one fault on the directive, nothing else)
                ev["lib"] = [{"title": "Cyclic dependency", "level": "Error", "file": info["dirfile"], "line": info["dirline"], "c0": 0, "c1": 0, "kind": "Cyclic dependency"}]
                evs.append(ev)
                cases.append(({"fault": "cycle-through-subdirectory"}, info, texts))
    # nested includes below a sub-directory: a path is resolved against the directory of the file that names it
    # (rva binary only: the in-memory reader has a flat name space)
    with tempfile.TemporaryDirectory(dir=WORK) as td:
        for k, sub in enumerate(("lib", "a/b")):
            texts = {"main.s": f'main:\n    li t1, 2\n.include "{sub}/outer.s"\n    li a7, 10\n    ecall\n',
                     f"{sub}/outer.s": '    li t2, 3\n.include "inner.s"\n    li t3, 4\n',
                     f"{sub}/inner.s": "    li t4, 5\n    addi t5, t5\n"}
            flat_lines, origin = [], []
            def walk(name):
                for i, ln in enumerate(texts[name].split("\n")):      # as `flatten` above: the empty piece after a final newline is a line
                    m = re.match(r'^\s*\.include "([^"]+)"', ln)
                    if m:
                        walk(os.path.normpath(os.path.join(os.path.dirname(name), m.group(1))))
                    else:
                        flat_lines.append(ln)
                        origin.append((name, i))
            walk("main.s")
            dd, df = os.path.join(td, f"n{k}"), os.path.join(td, f"f{k}")
            for n, t in texts.items():
                os.makedirs(os.path.dirname(os.path.join(dd, n)), exist_ok=True)
                open(os.path.join(dd, n), "w").write(t)
            os.makedirs(df)
            open(os.path.join(df, "main.s"), "w").write("\n".join(flat_lines))

            def run_json2(dirp):
                try:
                    q = subprocess.run([rva, "lint", os.path.join(dirp, "main.s"), "--json"], stdout=subprocess.PIPE, stderr=subprocess.DEVNULL, timeout=10)
                    res = []
                    for x in json.loads(q.stdout.decode("utf-8", "replace"))["diagnostics"]:
                        f = x["file"] or ""
                        fn = os.path.relpath(os.path.realpath(f), os.path.realpath(dirp)) if f else ""
                        title = "(parse error)" if x["title"].startswith("Expected ") else x["title"]
                        res.append({"title": title, "level": x["level"], "file": fn, "line": x["range"]["start"]["line"],
                                    "c0": 0 if title == "(parse error)" else x["range"]["start"]["column"],
                                    "c1": 0 if title == "(parse error)" else x["range"]["end"]["column"], "kind": x["title"].split(":")[0]})
                    return res
                except (subprocess.TimeoutExpired, ValueError, KeyError):
                    return None
            ncli += 2
            got, flat = run_json2(dd), run_json2(df)
            # what the flattened file says, carried back to the file and line each line came from
            want = [dict(x, file=origin[x["line"]][0], line=origin[x["line"]][1]) for x in (flat or []) if x["line"] < len(origin)]
            tree = {n: [({"t": "inc", "f": os.path.normpath(os.path.join(os.path.dirname(n), m.group(1)))} if (m := re.match(r'^\s*\.include "([^"]+)"', ln)) else {"t": "l", "f": ""})
                        for ln in t.split("\n")] for n, t in texts.items()}
            info = {"fault": "none"}
            ev = {"ev": "inc", "id": len(evs) + 1, "case": info, "tree": tree, "lib_ev": "obs", "lib": want, "flat": flat or [], "lib_twin": [],
                  "cli_ev": "ok" if got is not None and flat is not None else "timeout", "cli_all": got or [],
                  "cli_base": [x for x in (got or []) if x["file"] == "main.s"], "cli_hidden": len([x for x in (got or []) if x["file"] != "main.s"]),
                  "cli_twin": [], "cli_only": True, "cli_af": got or [], "cli_af_hidden": 0}
            evs.append(ev)
            cases.append(({"fault": "none", "nested-directory": sub}, info, texts))
    for e in evs:
        e.setdefault("cli_only", False)
        e.setdefault("cli_af", [])
        e.setdefault("cli_af_hidden", 0)
        e.setdefault("abs_run", False)
        e.setdefault("abs_all", [])
        e.setdefault("abs_base", [])
        e.setdefault("abs_hidden", 0)
    v, ress = validate_chunks("Trace_Include", evs, wd, "inc.chunk", chunk=3000, heap="8g")
    for r in ress:
        out.add_tlc(r)
    for x in v:
        p, info, texts = cases[x["id"] - 1]
        x["plan"], x["info"], x["texts"] = p, info, texts
    out.add_verdicts(v)
    out.cov["traces_validated_against_impl"] = len(evs)
    out.sample({"plan": cases[0][0], "files": cases[0][2]})
    from collections import Counter
    fc = Counter(c[1]["fault"] for c in cases)
    out.assumptions += [
        "an include directive stands alone on its line; pasting replaces the directive by the file's text (a trailing newline of the included file yields a blank line)",
        "reader faults: missing file, unreadable file (in memory: injected IOErr; on disk: the path is a directory), self-inclusion, inclusion of the parent; a correct reader reports a file that is already being read",
        "the message of a reader error is normalised to its kind (the two readers word IO errors differently)",
        "diagnostics are compared as multisets of (title, severity, file, line, columns); parse errors only by (severity, file, line)",
    ]
    return out.finish(extra_cov={
        "plans": len(cases), "fault_plans": dict(fc), "cli_runs": ncli, "exhaustive": False,
        "evaluations": 2 * len(cases) + ncli, "distinct_nontrivial": len(cases),
        "rule": "tlc -simulate over Gen_Include (segment to f1.s, optional nested segment to f2.s, optional later segment to f3.s, trailing-newline flags, 4 fault kinds) applied to 4 base programs with parse errors, CFG-relevant labels and lints spread over the lines; each tree linted through the in-memory FileReader API and through rva on real directories, compared with the flattened file / the tree without the faulty directive",
    })
