------------------------------ MODULE Machine ------------------------------
(***************************************************************************)
(* Reference: an executable RV32IM machine with call frames, running the   *)
(* program given by the projected node list of a Cfg, together with the    *)
(* monitors that give the dynamic reading of C01, C02 and C03:             *)
(*   ClaimsTrue   - every judged value claim holds in the machine state    *)
(*   LiveMonitor  - no read of a register that was reported not-live at    *)
(*                  some executed instruction since its last definition    *)
(*   EdgeMonitor  - consecutive executed instructions of one frame are     *)
(*                  joined by an edge; executed nodes are not "unreachable"*)
(* The machine is deterministic given the initial valuation and a `choice` *)
(* number that selects the results of environment calls.                   *)
(*                                                                         *)
(* Supported subset (executions leaving it stop being judged, they are     *)
(* never a violation): direct control flow, ret through an unmodified ra,  *)
(* word-aligned memory, environment calls of the documented table, callees *)
(* that restore sp / s0-s11 and do not write above their entry sp.         *)
(***************************************************************************)
EXTENDS ISA, CfgRef

StackTop == 2147479552            \* 0x7FFFF000
CodeAddr(i) == 4194304 + 4 * i    \* 0x00400000 + 4 i

\* ------------------------------------------------------------- environment calls
\* number -> <<argument registers, result registers>>  (cfg/ecall.rs is the documented table)
EcallSig(n) ==
  CASE n \in {1, 4, 11, 32, 34, 35, 36, 55, 57, 93} -> <<{10}, {}>>
    [] n \in {5, 12} -> <<{}, {10}>>
    [] n \in {8, 40, 56, 59} -> <<{10, 11}, {}>>
    [] n \in {9, 41, 43, 50} -> <<{10}, {10}>>
    [] n = 10 -> <<{}, {}>>
    [] n \in {17, 42, 1024} -> <<{10, 11}, {10}>>
    [] n = 30 -> <<{}, {10, 11}>>
    [] n \in {31, 33} -> <<{10, 11, 12, 13}, {}>>
    [] n = 54 -> <<{10, 11, 12}, {11}>>
    [] n \in {62, 63, 64} -> <<{10, 11, 12}, {10}>>
    [] OTHER -> <<{}, {-1}>>         \* not in the table
KnownEcall(n) == EcallSig(n)[2] # {-1}
EcallResult(choice, r) == IF choice % 2 = 0 THEN 0 ELSE 424242 + r

\* ------------------------------------------------------------- memory (word granular)
DefaultWord(a) == XorW(MulW(a, 40503), 1515870810)
MemW(s, a) == IF a \in DOMAIN s.mem THEN s.mem[a] ELSE DefaultWord(a)
SetMemW(s, a, v) == [x \in (DOMAIN s.mem) \cup {a} |-> IF x = a THEN v ELSE s.mem[x]]
Aligned(a) == (a % 4) = 0
WordBase(a) == a - (a % 4)
ByteShift(a) == 8 * (a % 4)

LoadMem(s, op, a) ==
  LET w == MemW(s, WordBase(a)) sh == SrlW(w, ByteShift(a)) IN
  CASE op = "lw"  -> w
    [] op = "lb"  -> Sext(sh, 8)
    [] op = "lbu" -> sh % 256
    [] op = "lh"  -> Sext(sh, 16)
    [] op = "lhu" -> sh % 65536
    [] OTHER -> w
LoadOk(op, a) == CASE op \in {"lw", "lwu"} -> Aligned(a) [] op \in {"lh", "lhu"} -> (a % 2) = 0 [] OTHER -> TRUE
StoreMem(s, op, a, v) ==
  LET b == WordBase(a) w == MemW(s, b) sh == ByteShift(a)
      mask == IF op = "sb" THEN SllW(255, sh) ELSE SllW(65535, sh)
      part == IF op = "sb" THEN SllW(v % 256, sh) ELSE SllW(v % 65536, sh)
  IN IF op = "sw" THEN SetMemW(s, a, v) ELSE SetMemW(s, b, OrW(AndW(w, NotW(mask)), part))
StoreOk(op, a) == CASE op = "sw" -> Aligned(a) [] op = "sh" -> (a % 2) = 0 [] OTHER -> TRUE

\* ------------------------------------------------------------- state
\* initial valuations: 0 all registers distinct; 1 all zero; 2 boundary mix; 3 distinct but the
\* usual condition registers a0 / t0 are zero (so that branches on them go the other way with all
\* other values still distinguishable)
InitRegs(v) ==
  [r \in Regs |->
     IF r = 0 THEN 0
     ELSE IF r = 2 THEN StackTop - 64 * v
     ELSE IF r = 1 THEN CodeAddr(0)
     ELSE CASE v = 0 -> 1000 + 37 * r
            [] v = 1 -> 0
            [] v = 2 -> (IF r % 2 = 0 THEN -1 - r ELSE MaxW - r)
            [] v = 3 -> (IF r \in {5, 10} THEN 0 ELSE 2000 + 41 * r)
            [] OTHER -> 7 * r + v]

Frame0(regs) == [snap |-> regs, retpc |-> 0, callnode |-> 0, dead |-> [r \in Regs |-> FALSE], entry |-> 1, written |-> {}]

MInit(v, choice, fuel) ==
  [pc |-> 1, reg |-> InitRegs(v), mem |-> <<>>, csrw |-> <<>>, frames |-> << Frame0(InitRegs(v)) >>,
   dead |-> [r \in Regs |-> FALSE], last |-> 0, halted |-> FALSE, why |-> "", viol |-> <<>>,
   fuel |-> fuel, choice |-> choice, steps |-> 0, c01 |-> FALSE, written |-> {}, det |-> <<>>]

Top(s) == s.frames[Len(s.frames)]
Halt(s, why) == [s EXCEPT !.halted = TRUE, !.why = why]
Flag(s, key) == [s EXCEPT !.viol = IF \E i \in 1..Len(@) : @[i] = key THEN @ ELSE Append(@, key)]
\* as Flag, and remember where (node index, step, what) for the witness report (not part of the key)
FlagAt(s, key, what) ==
  [Flag(s, key) EXCEPT !.det = IF \E i \in 1..Len(s.viol) : s.viol[i] = key THEN @
                                ELSE Append(@, key \o " node=" \o ToString(s.pc) \o " step=" \o ToString(s.steps)
                                               \o " " \o ToString(what))]

\* ------------------------------------------------------------- C01: claims
\* value of an abstract value in the current frame, or "skip" when the kind is not judged
ClaimVal(s, v) ==
  CASE v.t = "c"   -> [ok |-> TRUE, w |-> v.n]
    [] v.t = "a"   -> [ok |-> TRUE, w |-> AddrOf(v.s)]
    [] v.t = "ors" -> [ok |-> v.r >= 0, w |-> AddW(Top(s).snap[IF v.r >= 0 THEN v.r ELSE 0], v.n)]
    [] OTHER       -> [ok |-> FALSE, w |-> 0]

RegClaimsBad(s, claims, when) ==
  { "C01:" \o when \o ":reg:" \o claims[i].v.t : i \in
      { j \in 1..Len(claims) :
          LET c == ClaimVal(s, claims[j].v) IN c.ok /\ (IF claims[j].reg = 0 THEN 0 ELSE s.reg[claims[j].reg]) # c.w } }
MemClaimsBad(s, claims, when) ==
  { "C01:" \o when \o ":stack:" \o claims[i].v.t : i \in
      { j \in 1..Len(claims) :
          LET c == ClaimVal(s, claims[j].v)
              a == AddW(Top(s).snap[2], claims[j].loc.o)
          IN c.ok /\ claims[j].loc.t = "so" /\ Aligned(a) /\ MemW(s, a) # c.w } }

RECURSIVE FlagAll(_, _)
FlagAll(s, keys) == IF keys = {} THEN s ELSE LET k == CHOOSE x \in keys : TRUE IN FlagAll(Flag(s, k), keys \ {k})

OpOf(x) == IF x.node.op # "" THEN x.node.op ELSE x.node.k
\* a function entry that is also reached without a call (a jump or branch to the function's label, or code falling
\* into it): the analysis restarts "saved registers and sp hold their entry values" there - a recorded finding with
\* one key of its own, so that false claims in all other programs keep their precise keys
EntryReachedWithoutCall(cfg) ==
  \E i \in 1..NN(cfg) : cfg.nodes[i].node.k = "FuncEntry" /\ Len(cfg.nodes[i].prevs) > 0
ClaimKeys(cfg, keys) ==
  IF keys # {} /\ EntryReachedWithoutCall(cfg)
    THEN { "C01:false-claim:program-reaches-a-function-entry-without-a-call" } ELSE keys
\* only the first step with a false claim is reported per execution (later ones are consequences)
FlagClaims(s, keys) == IF s.c01 \/ keys = {} THEN s ELSE [FlagAll(s, keys) EXCEPT !.c01 = TRUE]
CheckClaimsIn(cfg, s)  ==
  LET w == "before-" \o OpOf(cfg.nodes[s.pc]) IN
  FlagClaims(s, ClaimKeys(cfg, RegClaimsBad(s, cfg.nodes[s.pc].rin, w) \cup MemClaimsBad(s, cfg.nodes[s.pc].min, w)))
CheckClaimsOut(cfg, s, n) ==
  LET w == "after-" \o OpOf(cfg.nodes[n]) IN
  FlagClaims(s, ClaimKeys(cfg, RegClaimsBad(s, cfg.nodes[n].rout, w) \cup MemClaimsBad(s, cfg.nodes[n].mout, w)))

\* ------------------------------------------------------------- C02: live monitor
\* programs in which a function entry is also the target of a plain jump or branch
JumpsToFunctionEntry(cfg) ==
  \E i \in 1..NN(cfg) :
     LET n == cfg.nodes[i].node IN
     Kind(n) \in {"jump", "branch"} /\ \E f \in 1..Len(cfg.funcs) : cfg.funcs[f].label = n.lab
\* an ecall before which the value analysis has no constant for a7 (its signature is unknown to it)
EcallNumberUnknown(cfg, i) ==
  /\ Kind(cfg.nodes[i].node) = "ecall"
  /\ ~\E j \in 1..Len(cfg.nodes[i].rin) : cfg.nodes[i].rin[j].reg = 17 /\ cfg.nodes[i].rin[j].v.t = "c"
LiveBefore(cfg, s, reads) ==
  LET li == SeqSet(cfg.nodes[s.pc].live_in)
      d1 == [r \in Regs |-> s.dead[r] \/ (r # 0 /\ r \notin li)]
      badreads == { r \in reads : r # 0 /\ d1[r] }
      s1 == [s EXCEPT !.dead = d1]
  IN IF badreads = {} THEN s1
     ELSE FlagAt(s1, "C02:dynamic:read-of-register-reported-dead:"
                   \o (IF EcallNumberUnknown(cfg, s.pc) /\ badreads \subseteq ArgRegs
                          THEN "argument-of-an-ecall-whose-number-the-analysis-does-not-know"
                       ELSE IF JumpsToFunctionEntry(cfg) \/ EntryReachedWithoutCall(cfg) THEN "program-jumps-to-a-function-entry"
                       ELSE "ordinary-program"),
                 badreads)
\* `written` = registers written by instructions of the current frame (since it was entered)
Define(s, regs) == [s EXCEPT !.dead = [r \in Regs |-> IF r \in regs THEN FALSE ELSE @[r]],
                             !.written = @ \cup (regs \cap Regs)]

\* ------------------------------------------------------------- C03: edge monitor
RECURSIVE SkipPseudo(_, _, _)
SkipPseudo(cfg, set, n) ==      \* replace pseudo nodes by their successors (n bounds the recursion)
  IF n = 0 THEN set
  ELSE LET ps == { i \in set : cfg.nodes[i].node.k \in {"FuncEntry", "ProgramEntry"} } IN
       IF ps = {} THEN set
       ELSE SkipPseudo(cfg, (set \ ps) \cup UNION { SeqSet(cfg.nodes[i].nexts) : i \in ps }, n - 1)
EdgeCheck(cfg, s, from, to) ==
  IF from = 0 THEN s
  ELSE IF to \in SkipPseudo(cfg, SeqSet(cfg.nodes[from].nexts), 3) THEN s
  ELSE FlagAt(s, "C03:dynamic:executed-transfer-is-not-an-edge:" \o Kind(cfg.nodes[from].node), <<from, to>>)

\* ------------------------------------------------------------- one step
IsPseudoNode(x) == x.node.k \in {"FuncEntry", "ProgramEntry"}
NextPc(cfg, i) == IF i < NN(cfg) THEN i + 1 ELSE 0

Step(cfg, unreach, s) ==
  IF s.halted THEN s
  ELSE IF s.fuel = 0 THEN Halt(s, "out-of-fuel")
  ELSE IF s.pc = 0 \/ s.pc > NN(cfg) THEN Halt(s, "ran-off-the-end")
  ELSE
  LET x == cfg.nodes[s.pc] n == x.node k == Kind(n) IN
  IF IsPseudoNode(x)
    THEN (IF n.k = "FuncEntry" /\ Top(s).entry # s.pc
            THEN Halt(s, "function-entered-without-call")
            ELSE [s EXCEPT !.pc = NextPc(cfg, s.pc), !.fuel = @ - 1])
  ELSE
  LET s0 == [s EXCEPT !.fuel = @ - 1, !.steps = @ + 1]
      sU == IF s.pc \in unreach THEN Flag(s0, "C03:dynamic:executed-node-reported-unreachable:" \o k) ELSE s0
      sE == EdgeCheck(cfg, sU, sU.last, sU.pc)
      sC == CheckClaimsIn(cfg, sE)
      a7 == sC.reg[17]
      reads == IF k = "ecall" THEN (IF KnownEcall(a7) THEN {17} \cup EcallSig(a7)[1] ELSE {17})
               ELSE IF k = "call" THEN {}
               ELSE ArchReads(Norm(n))
      sL == LiveBefore(cfg, sC, reads)
      here == s.pc
      done(t) == CheckClaimsOut(cfg, [t EXCEPT !.last = here], here)
  IN
  CASE k = "plain" ->
         IF n.k = "Load" THEN
           LET a == AddW(R(sL, n.rs1), n.imm) IN
           IF ~LoadOk(n.op, a) THEN Halt(sL, "unaligned-access")
           ELSE done(Define([sL EXCEPT !.reg = SetR(sL, n.rd, LoadMem(sL, n.op, a)), !.pc = NextPc(cfg, here)], {n.rd}))
         ELSE IF n.k = "Store" THEN
           LET a == AddW(R(sL, n.rs1), n.imm) IN
           IF ~StoreOk(n.op, a) THEN Halt(sL, "unaligned-access")
           ELSE IF Len(sL.frames) > 1 /\ a >= Top(sL).snap[2] /\ a >= StackTop - 65536
                  THEN Halt(sL, "callee-writes-above-its-entry-sp")
           ELSE done([sL EXCEPT !.mem = StoreMem(sL, n.op, a, R(sL, n.rs2)), !.pc = NextPc(cfg, here)])
         ELSE IF ~HasSemantics(Norm(n)) THEN Halt(sL, "unsupported-instruction")
         ELSE LET e == ExecNode(Norm(n), [reg |-> sL.reg, csrw |-> sL.csrw, stores |-> <<>>, ctl |-> CtlNext]) IN
              done(Define([sL EXCEPT !.reg = e.reg, !.csrw = e.csrw, !.pc = NextPc(cfg, here)], ArchWrites(Norm(n))))
    [] k = "branch" ->
         LET tk == BranchTaken(n.op, R(sL, n.rs1), R(sL, n.rs2)) IN
         done([sL EXCEPT !.pc = IF tk THEN Target(cfg, n.lab) ELSE NextPc(cfg, here)])
    [] k = "jump" -> done([sL EXCEPT !.pc = Target(cfg, n.lab)])
    \* jal rd, L with rd other than zero / ra: a jump that leaves the address of the next instruction in rd
    [] k = "linkjump" ->
         IF Target(cfg, n.lab) = 0 THEN Halt(sL, "jump-to-undefined-label")
         ELSE done(Define([sL EXCEPT !.reg = SetR(sL, n.rd, CodeAddr(here + 1)), !.pc = Target(cfg, n.lab)], {n.rd}))
    [] k = "call" ->
         LET tgt == Target(cfg, n.lab)
             regs2 == SetR(sL, 1, CodeAddr(here + 1))
             \* caller's flags are kept in the frame; the callee starts with the argument flags only
             fr == [snap |-> regs2, retpc |-> NextPc(cfg, here), callnode |-> here, dead |-> sL.dead, entry |-> tgt,
                    written |-> sL.written]
             sOut == CheckClaimsOut(cfg, [sL EXCEPT !.reg = regs2], here)   \* rout of a call: judged right after the jump
         IN IF tgt = 0 \/ cfg.nodes[tgt].node.k # "FuncEntry" THEN Halt(sL, "call-target-is-not-a-function")
            ELSE IF Len(sL.frames) >= 6 THEN Halt(sL, "recursion-depth")
            ELSE [sL EXCEPT !.reg = regs2, !.pc = tgt, !.frames = Append(@, fr), !.last = 0,
                            !.dead = [r \in Regs |-> IF r \in ArgRegs THEN sL.dead[r] ELSE FALSE],
                            !.written = {},
                            !.viol = sOut.viol, !.c01 = sOut.c01, !.det = sOut.det]
    [] k \in {"ret", "merge"} ->      \* a merged return is still a return of the program
         IF n.op = "uret" THEN Halt(sL, "uret")
         ELSE IF Len(sL.frames) = 1 THEN Halt(done(sL), "return-from-main")
         ELSE LET f == Top(sL) IN
              IF sL.reg[1] # f.snap[1] THEN Halt(sL, "ra-not-restored")
              ELSE IF \E r \in SavedRegs \cup {2} : sL.reg[r] # f.snap[r] THEN Halt(done(sL), "callee-saved-not-restored")
              ELSE LET sR == done(sL)
                       \* after the call: an argument register the callee wrote carries the callee's
                       \* flag (a return value read by the caller is a read of the callee's definition);
                       \* every other caller-saved register and ra are (re)defined by the call itself
                       \* (clobbered, as the convention says); saved registers resume the caller's flags
                       d2 == [r \in Regs |-> IF r \in ArgRegs /\ r \in sR.written THEN sR.dead[r]
                                             ELSE IF r \in ArgRegs \cup TempRegs \cup {1} THEN FALSE ELSE f.dead[r]]
                       sB == [sR EXCEPT !.frames = SubSeq(@, 1, Len(@) - 1), !.pc = f.retpc, !.dead = d2,
                                        !.written = f.written \cup ArgRegs \cup TempRegs \cup {1},
                                        !.last = f.callnode]
                   IN sB
    [] k = "ecall" ->
         IF a7 \in {10, 93} THEN Halt(done(sL), "exit")
         \* a call number that is not in the table: the environment hands results back in a0/a1 (as every listed call
         \* does) and touches nothing else - what the value analysis assumes too; the run goes on, so that what the
         \* analysis claims behind such a call is judged
         ELSE LET rets == IF KnownEcall(a7) THEN EcallSig(a7)[2] ELSE {10, 11}
                  regs2 == [r \in Regs |-> IF r \in rets THEN EcallResult(sL.choice, r) ELSE sL.reg[r]]
              IN done(Define([sL EXCEPT !.reg = regs2, !.pc = NextPc(cfg, here)], TempRegs \cup ArgRegs))
    [] OTHER -> Halt(sL, "unsupported-control:" \o k)

RECURSIVE Run(_, _, _)
Run(cfg, unreach, s) == IF s.halted THEN s ELSE Run(cfg, unreach, Step(cfg, unreach, s))

\* nodes carrying an unreachable-code diagnostic
Unreach(cfg, lints) ==
  { i \in 1..NN(cfg) : \E j \in 1..Len(lints) :
       lints[j].code = "unreachable-code" /\ lints[j].file = cfg.nodes[i].node.file
       /\ lints[j].r0 = cfg.nodes[i].node.r0 /\ lints[j].r1 = cfg.nodes[i].node.r1
       /\ cfg.nodes[i].node.k \notin {"FuncEntry", "ProgramEntry"} }
=============================================================================
