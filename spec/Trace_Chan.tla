----------------------------- MODULE Trace_Chan -----------------------------
(* impl -> spec (C18): the diagnostics recorded from every output channel of *)
(* one input - rva --json, --compact, pretty (with / without colour, with /  *)
(* without --all-files) and the library entry point RVParser::run - must     *)
(* agree, be ordered by position within each file, be well-formed, and each  *)
(* pretty excerpt must show the referenced line with the marker under the    *)
(* reported columns.  The severity of a kind is a function of the kind over  *)
(* the whole trace (state variable `sev`).                                   *)
EXTENDS Integers, Sequences, FiniteSets, TLC, Json, IOUtils
Rec == ndJsonDeserialize(IOEnv.TRACE)
VARIABLES l, sev
vars == <<l, sev>>

SeqSet(s) == { s[i] : i \in 1..Len(s) }
RECURSIVE Cat(_, _, _)
Cat(f(_), n, i) == IF i > n THEN <<>> ELSE f(i) \o Cat(f, n, i + 1)

\* projection every channel must agree on (lines and columns 0-based)
P(d) == [level |-> d.level, title |-> d.title, file |-> d.file, line |-> d.line, c0 |-> d.c0, c1 |-> d.c1]
Proj(ds) == [i \in 1..Len(ds) |-> P(ds[i])]
OnlyBase(ds, base) == SelectSeq(ds, LAMBDA d : d.file = base)

SortedWithinFiles(ds) ==
  \A i, j \in 1..Len(ds) : (i < j /\ ds[i].file = ds[j].file) =>
      (ds[i].line < ds[j].line \/ (ds[i].line = ds[j].line /\ ds[i].c0 <= ds[j].c0))

IsWs(c) == c \in {32, 9, 13, 10, 11, 12}
RECURSIVE FirstNonWs(_, _)
FirstNonWs(s, i) == IF i > Len(s) THEN Len(s) + 1 ELSE IF IsWs(s[i]) THEN FirstNonWs(s, i + 1) ELSE i
RECURSIVE LastNonWs(_, _)
LastNonWs(s, i) == IF i = 0 THEN 0 ELSE IF IsWs(s[i]) THEN LastNonWs(s, i - 1) ELSE i
Trim(s) == LET a == FirstNonWs(s, 1) b == LastNonWs(s, Len(s)) IN IF a > b THEN <<>> ELSE SubSeq(s, a, b)

\* excerpt = the referenced source line without surrounding blanks; marker = carets exactly
\* under columns c0..c1 of that line (after removing the leading blanks)
ExcerptOk(d) ==
  LET src == d.srcline
      off == d.c0 - (FirstNonWs(src, 1) - 1)
      n   == d.c1 - d.c0 + 1
      m   == d.marker
  IN /\ d.gutter_delta = 0            \* excerpt row and marker row start at the same printed column
     /\ d.excerpt = Trim(src)
     /\ d.shown_line = d.line + 1
     /\ off >= 0 /\ n >= 1
     /\ Len(m) = off + n
     /\ \A i \in 1..Len(m) : (m[i] = 94) = (i > off)
     \* in front of the carets: a tab where the source has a tab (same spacing on a terminal), otherwise something
     \* that takes one column and does not move the cursor (no carriage return, line feed, form feed ...)
     /\ \A i \in 1..Len(m) : i <= off =>
           LET k == (FirstNonWs(src, 1) - 1) + i
               sc == IF k <= Len(src) THEN src[k] ELSE 32
           IN /\ m[i] \notin {10, 11, 12, 13, 133, 8232, 8233}
              /\ (m[i] = 9) = (sc = 9)

Judge(e) ==
  LET lib == e.library
      base == e.base
      agree(name, got, want) ==
        IF Proj(got) = Proj(want) THEN <<>> ELSE << "C18:disagree:" \o name >>
  IN
  (IF ~e.json_ok THEN << "C18:json:invalid-or-wrong-shape" >> ELSE agree("json-vs-library", e.json, lib))
  \* the JSON channel also carries raw offsets: they are the offsets in the file as it is on disk
  \o (IF e.json_ok /\ Proj(e.json) = Proj(lib)
         /\ [i \in 1..Len(lib) |-> <<e.json[i].r0, e.json[i].r1>>] # [i \in 1..Len(lib) |-> <<lib[i].r0, lib[i].r1>>]
        THEN << "C18:json:raw-offsets-differ-from-library" >> ELSE <<>>)
  \o agree("compact-all-files-vs-library", e.compact_all, lib)
  \o agree("compact-vs-library-base-file", e.compact, OnlyBase(lib, base))
  \o agree("pretty-all-files-vs-library", e.pretty_all, lib)
  \o agree("pretty-vs-library-base-file", e.pretty, OnlyBase(lib, base))
  \o agree("pretty-colour-vs-no-colour", e.pretty_color, e.pretty)
  \o (IF e.hidden_count # Len(lib) - Len(OnlyBase(lib, base)) THEN << "C18:other-files-count" >> ELSE <<>>)
  \o (IF e.nocolor_has_escape THEN << "C18:no-color-output-has-escape-codes" >> ELSE <<>>)
  \o (IF ~SortedWithinFiles(lib) THEN << "C18:order:library" >> ELSE <<>>)
  \o (IF e.json_ok /\ ~SortedWithinFiles(e.json) THEN << "C18:order:json" >> ELSE <<>>)
  \o (IF ~SortedWithinFiles(e.compact_all) THEN << "C18:order:compact" >> ELSE <<>>)
  \o (IF \E i \in 1..Len(lib) : lib[i].title = "" THEN << "C18:empty-title" >> ELSE <<>>)
  \o (LET ex(i) == IF ExcerptOk(e.pretty_all[i]) THEN <<>>
                   ELSE << "C18:pretty-excerpt:" \o (IF e.pretty_all[i].crlf THEN "crlf-file" ELSE "lf-file") >>
      IN Cat(ex, Len(e.pretty_all), 1))

\* severity is a function of the kind (title up to the first ':')
SevConflicts(e, m) ==
  { "C18:severity-not-fixed:" \o d.kind : d \in { x \in SeqSet(e.library) : x.kind \in DOMAIN m /\ m[x.kind] # x.level } }
SevUpdate(e, m) ==
  LET ks == { d.kind : d \in SeqSet(e.library) } IN
  [k \in (DOMAIN m) \cup ks |-> IF k \in DOMAIN m THEN m[k]
                                 ELSE (CHOOSE d \in SeqSet(e.library) : d.kind = k).level]

RECURSIVE Dedup(_, _, _)
Dedup(s, i, seen) == IF i > Len(s) THEN <<>>
                     ELSE IF s[i] \in seen THEN Dedup(s, i + 1, seen) ELSE <<s[i]>> \o Dedup(s, i + 1, seen \cup {s[i]})
RECURSIVE Report(_, _, _)
Report(e, bad, i) ==
  IF i > Len(bad) THEN TRUE
  ELSE PrintT("VERDICT " \o ToJson([id |-> e.id, key |-> bad[i]])) /\ Report(e, bad, i + 1)
RECURSIVE SetSeq(_)
SetSeq(S) == IF S = {} THEN <<>> ELSE LET x == CHOOSE y \in S : TRUE IN <<x>> \o SetSeq(S \ {x})

Init == l = 1 /\ sev = <<>>
Next == /\ l <= Len(Rec)
        /\ LET e == Rec[l] IN
           IF e.ev = "channels"
             THEN /\ Report(e, Dedup(Judge(e) \o SetSeq(SevConflicts(e, sev)), 1, {}), 1)
                  /\ sev' = SevUpdate(e, sev)
             ELSE sev' = sev
        /\ l' = l + 1
Spec == Init /\ [][Next]_vars
Accepted == IF TLCGet("stats").diameter = Len(Rec) + 1 THEN TRUE
            ELSE PrintT("TRACE-NOT-CONSUMED") /\ FALSE
=============================================================================
