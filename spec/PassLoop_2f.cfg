SPECIFICATION Spec
CONSTANTS
  N = 3
  Facts = {p, q}
  MaxOut = 2
  Runs = 2
  FirstVisitCounts = TRUE
  WaitForVisited = TRUE
  UnvisitedIsTop = FALSE
  RootsAreEntries = TRUE
INVARIANTS SweepBound FixedPoint Stable AllVisited
CHECK_DEADLOCK FALSE
