"""Programs recorded from the repository itself and hand-written realistic programs
(used as impl -> spec trace inputs by several checks)."""
import glob, os

REPO = "/repo"

CONFORMING = """\
.data
msg: .word 1, 2, 3
.text
main:
    li a0, 5
    call fact
    mv a1, a0
    li a0, 1
    li a7, 1
    ecall
    li a7, 10
    ecall

fact:
    addi sp, sp, -8
    sw ra, 0(sp)
    sw s0, 4(sp)
    mv s0, a0
    li t0, 1
    ble a0, t0, base
    addi a0, a0, -1
    call fact
    mul a0, a0, s0
    j done
base:
    li a0, 1
done:
    lw s0, 4(sp)
    lw ra, 0(sp)
    addi sp, sp, 8
    ret
"""

VIOLATING = """\
main:
    li t0, 7
    call f
    add a0, a0, t0
    li a7, 10
    ecall
f:
    li s1, 3
    addi zero, zero, 1
    lw t1, 4(sp)
    li a0, 1
    ret
dead:
    li a2, 2
"""

LOOPS = """\
main:
    li a0, 0
    li a1, 10
loop:
    bge a0, a1, end
    addi a0, a0, 1
    j loop
end:
    li a7, 10
    ecall
"""


def repo_programs():
    out = {}
    pats = ["riscv_analysis_cli/tests/**/*.s", "riscv_analysis_cli/resources/test/**/*.s"]
    for p in pats:
        for f in sorted(glob.glob(os.path.join(REPO, p), recursive=True)):
            try:
                out[os.path.relpath(f, REPO)] = open(f).read()
            except OSError:
                pass
    return out


def all_programs():
    d = dict(repo_programs())
    d["corpus/conforming"] = CONFORMING
    d["corpus/violating"] = VIOLATING
    d["corpus/loops"] = LOOPS
    return d
