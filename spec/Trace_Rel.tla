------------------------------ MODULE Trace_Rel ------------------------------
(* impl -> spec (C13, C14): relational validation of a pair of recorded      *)
(* analyses - a program and its rewritten / renamed version.                 *)
(*   same meaning : the instruction sequences are equal node by node (C13;   *)
(*                  a pseudo-expansion pair is compared with ISA!Equivalent) *)
(*                  resp. equal after renaming (C14)                         *)
(*   same verdict : the multisets of (kind, instruction index, operand)      *)
(*                  are equal (C13) resp. equal after mapping registers      *)
(*                  through the permutation (C14)                            *)
EXTENDS ISA, Json, IOUtils
Rec == ndJsonDeserialize(IOEnv.TRACE)
VARIABLES l
vars == <<l>>
SeqSet(s) == { s[i] : i \in 1..Len(s) }
Bag(s) == [x \in SeqSet(s) |-> Cardinality({ i \in 1..Len(s) : s[i] = x })]

MapReg(e, r) == LET idx == { i \in 1..Len(e.rfrom) : e.rfrom[i] = r } IN
                IF idx = {} THEN r ELSE e.rto[CHOOSE i \in idx : TRUE]
MapLab(e, s) == LET idx == { i \in 1..Len(e.lfrom) : e.lfrom[i] = s } IN
                IF idx = {} THEN s ELSE e.lto[CHOOSE i \in idx : TRUE]
MapNode(e, n) == [n EXCEPT !.rd = MapReg(e, @), !.rs1 = MapReg(e, @), !.rs2 = MapReg(e, @), !.lab = MapLab(e, @)]
\* a diagnostic triple <<kind, index, operand>>; operands naming a register are strings "reg:N"
MapOperand(e, o) == LET idx == { i \in 1..Len(e.ofrom) : e.ofrom[i] = o } IN
                    IF idx = {} THEN o ELSE e.oto[CHOOSE i \in idx : TRUE]

MapDiag(e, d) == IF e.prop = "C14" THEN <<d[1], d[2], MapOperand(e, d[3])>> ELSE d

NodesOk(e) ==
  /\ Len(e.a.sigs) = Len(e.b.sigs)
  /\ \A i \in 1..Len(e.a.sigs) :
       LET x == MapNode(e, e.a.sigs[i]) y == e.b.sigs[i] IN
       x = y \/ (e.pseudo /\ HasSemantics(x) /\ HasSemantics(y) /\ Equivalent(<<x>>, <<y>>))

Judge(e) ==
  IF e.a.ev # "obs" \/ e.b.ev # "obs" THEN << e.prop \o ":" \o e.a.ev \o "-" \o e.b.ev >>
  ELSE (IF NodesOk(e) THEN <<>> ELSE << e.prop \o ":meaning-changed:" \o e.what >>)
       \o (IF Bag([i \in 1..Len(e.a.diags) |-> MapDiag(e, e.a.diags[i])]) = Bag(e.b.diags) THEN <<>>
           ELSE << e.prop \o ":diagnostics-differ:" \o e.what >>)

RECURSIVE Report(_, _, _)
Report(e, bad, i) ==
  IF i > Len(bad) THEN TRUE
  ELSE PrintT("VERDICT " \o ToJson([id |-> e.id, key |-> bad[i]])) /\ Report(e, bad, i + 1)
Init == l = 1
Next == l <= Len(Rec) /\ Report(Rec[l], Judge(Rec[l]), 1) /\ l' = l + 1
Spec == Init /\ [][Next]_vars
Accepted == IF TLCGet("stats").diameter = Len(Rec) + 1 THEN TRUE
            ELSE PrintT("TRACE-NOT-CONSUMED") /\ FALSE
=============================================================================
