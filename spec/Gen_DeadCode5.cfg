CONSTANTS K = 5
  Reach = FALSE
INIT Init
NEXT Next
CHECK_DEADLOCK FALSE
