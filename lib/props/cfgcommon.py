"""Shared pipeline of C03 / C11 / C16: Gen_Flow arrangements -> real pipeline -> Trace_Cfg."""
import os
from vlib import *
import corpus


def flow_cases(tier, tag):
    """TLC-generated flow programs: tlc -simulate n=3..7 (both tiers) + exhaustive n=2 (thorough)."""
    nsim = 700 if tier == "quick" else 8000
    sres = run_tlc("Gen_Flow", cfg="Gen_Flow_sim", simulate=nsim, depth=40, workers=4,
                   seed_=seed() * 7919 + 13, timeout=3000, heap="6g")
    sim = sres.tagged("CASE")
    bres = tlc_generate("Gen_Branch")
    cases = [dict(text=c["text"], syms=[], pos=[0, 0, 0, 0, 0], shape="branch:" + c["op"] + ":" + c["pat"], n=0) for c in bres[0]]
    ress = [sres, bres[1]]
    if tier == "thorough":
        cases, gres = tlc_generate("Gen_Flow", coverage=False, heap="8g", timeout=3000)
        ress.append(gres)
    seen = set()
    out = []
    for c in cases + sim:
        if c["text"] not in seen:
            seen.add(c["text"])
            out.append(c)
    return out, ress


def run_flow(pid, tier, replay, prefix):
    out = Outcome(pid, tier)
    wd = os.path.join(WORK, pid)
    rvh = build_harness()
    cases, tres = ([], []) if replay else flow_cases(tier, pid)
    for r in tres:
        out.add_tlc(r)
    metas = [{k: c[k] for k in ("syms", "pos", "shape", "n")} for c in cases]
    texts = [c["text"] for c in cases]
    progs = dict(corpus.all_programs())
    progs.update({"exit-%d" % i: t for i, t in enumerate(corpus.EXIT_PROGRAMS)})
    progs.update({"shared-%d" % i: t for i, t in enumerate(corpus.SHARED_PROGRAMS)})
    progs.update({"traps-%d" % i: t for i, t in enumerate(corpus.TRAP_TABLES)})
    if not replay:
        progs.update({"gen-shared-%d" % i: t for i, t in enumerate(shared_programs(tier, out, part=2))})
    cres = run_tlc("Gen_Conform", cfg="Gen_Conform", simulate=(40 if tier == "quick" else 800), depth=10, workers=4, seed_=seed() * 53 + 9)
    out.add_tlc(cres)
    progs.update({"conform-%d" % i: c["text"] for i, c in enumerate(cres.tagged("CASE"))})
    for name, text in progs.items():
        texts.append(text)
        metas.append({"syms": [], "pos": [0, 0, 0, 0, 0], "shape": "corpus:" + name, "n": 0})
    if replay:
        w = json.load(open(replay))["witness"]
        texts, metas = [w["text"]], [w["meta"]]
    hc = [{"id": i + 1, "mode": "observe", "text": t, "want": ["files", "nodes", "errors", "cfg", "lints"]}
          for i, t in enumerate(texts)]
    tp, evs = run_harness_par(rvh, hc, wd, "cfg")
    for e, m in zip(evs, metas):
        e["case"] = m
        e.setdefault("lints", [])
        e.setdefault("cfgerr", {})
        e["cfgerr_kind"] = e["cfgerr"].get("title", "").split(":")[0]      # the family of the error that stopped the analysis
        e.setdefault("cfgok", False)
        e.setdefault("cfg", {"nodes": [], "funcs": []})
        e.setdefault("files", [])
        e.setdefault("nodes", [])
        e.setdefault("errors", [])
    v, ress = validate_chunks("Trace_Cfg", evs, wd, "cfg.chunk", chunk=4000, heap="8g")
    for r in ress:
        out.add_tlc(r)
    mine = [x for x in v if x["key"].startswith(prefix)]
    unobs = [x for x in v if x["key"].startswith("CXX")]
    if unobs:
        out.notes.append(f"{len(unobs)} program(s) could not be observed (panic/timeout in the pipeline: C06's business): "
                         + json.dumps(texts[unobs[0]["id"] - 1]))
    for x in mine:
        x["text"] = texts[x["id"] - 1]
        x["meta"] = metas[x["id"] - 1]
    out.add_verdicts(mine)
    ok = [e for e in evs if e.get("cfgok")]
    out.cov["traces_validated_against_impl"] = len(evs)
    stats = {
        "programs": len(evs), "programs_cfg_ok": len(ok),
        "programs_with_functions": sum(1 for e in ok if e["cfg"]["funcs"]),
        "programs_with_shared_nodes": sum(1 for e in ok if any(len(n["funcs"]) > 1 for n in e["cfg"]["nodes"])),
        "programs_with_merged_returns": sum(1 for e in ok if any(n["node"]["lab"] == "<return>" for n in e["cfg"]["nodes"])),
        "programs_rejected_by_cfg": len(evs) - len(ok),
        "shapes": {s: sum(1 for m in metas if m["shape"] == s) for s in ("forced", "free", "dup", "data", "datadup", "datacode")},
    }
    for k in sorted({0, len(texts) // 2, len(texts) - 1}):
        out.sample({"text": texts[k], "shape": metas[k]["shape"]})
    return out, stats, len(cases)
