"""C04 — convention-conforming programs produce no diagnostics."""
import os
from vlib import *
import absprog
import props.execcommon as ex

PID = "C04"


def diags_of(e):
    """all diagnostics of an observe event as {code, line, reg}"""
    out = []
    nodes = e.get("nodes", [])

    def reg_at(x):
        for n in nodes:
            if n["file"] == x["file"] and n["r0"] <= x["r0"] and x["r1"] <= n["r1"]:
                for s in n["sub"]:
                    if s["r0"] == x["r0"] and s["r1"] == x["r1"] and s["role"] in ("rd", "rs1", "rs2"):
                        return n[s["role"]]
        return -1
    for x in e.get("errors", []):
        out.append({"code": "parse:" + x["kind"], "line": x["l0"], "reg": -1})
    if e.get("cfgok") is False and e.get("cfgerr"):
        out.append({"code": "cfg:" + e["cfgerr"]["title"].split(":")[0], "line": e["cfgerr"]["l0"], "reg": -1})
    for x in e.get("lints", []):
        out.append({"code": x["code"], "line": x["l0"], "reg": reg_at(x)})
    return out


def generate(cfgname, n, tag, out=None):
    """the small covering family in full (every template x every way its result is consumed), the large one sampled"""
    r = run_tlc("Gen_Conform", cfg=cfgname, simulate=n, depth=10, workers=4, seed_=seed() * 37 + len(tag), heap="6g", timeout=3000)
    rc = run_tlc("Gen_Conform", cfg=cfgname + "_cover", workers=4, heap="6g", timeout=3000)
    if rc.rc != 0:
        raise ToolError("Gen_Conform cover family did not finish:\n" + rc.out[-2000:])
    if out is not None:
        out.add_tlc(rc)
    cases = rc.tagged("CASE") + r.tagged("CASE")
    seen, out = set(), []
    for c in cases:
        k = c["text"] + "|" + c["inj"]
        if k not in seen:
            seen.add(k)
            out.append(c)
    return out, r


def run(tier, replay=None):
    out = Outcome(PID, tier)
    wd = os.path.join(WORK, PID)
    rvh = build_harness()
    cases, gres = generate("Gen_Conform", 200 if tier == "quick" else 6000, "c04", out)
    out.add_tlc(gres)
    if replay:
        cases = [json.load(open(replay))["witness"]["case"]]
    # confirmation that the generator's programs behave conventionally: executed on the reference machine
    nconf = 80 if tier == "quick" else 800
    conf = cases[:: max(1, len(cases) // nconf)][:nconf]
    evs = ex.observe(rvh, [c["text"] for c in conf], wd, "confirm")
    v, ress = validate_chunks("Trace_Exec", evs, wd, "confirm.chunk", chunk=400, heap="8g", timeout=3000)
    stops = set()
    for r in ress:
        out.add_tlc(r)
        for st in r.tagged("STAT"):
            stops |= set(st["stops"])
    bad_stops = stops - {"exit", "out-of-fuel", "recursion-depth"}
    if bad_stops:
        raise ToolError(f"generator produced a program that leaves the convention on the reference machine: {bad_stops}")
    # spellings: the same programs also with numeric register names and tabs (C13 covers the rest)
    hc = []
    for i, c in enumerate(cases):
        t = c["text"]
        if i % 3 == 1:
            t = t.replace("    ", "\t")
        if i % 3 == 2:
            for a, b in (("a0", "x10"), ("s0", "x8"), ("sp", "x2"), ("t0", "x5"), ("ra", "x1")):
                t = t.replace(a, b)
        hc.append({"id": i + 1, "mode": "observe", "text": t, "want": ["nodes", "errors", "lints"]})
    tp, hevs = run_harness(rvh, hc, wd, "conform")
    tr = [{"id": e["id"], "ev": e["ev"], "prop": "C04", "case": {"inj": "", "codes": [], "line": -1, "alt": -1, "reg": -1},
           "diags": diags_of(e) if e["ev"] == "obs" else []} for e in hevs]
    v2, ress2 = validate_chunks("Trace_Diag", tr, wd, "diag.chunk", chunk=5000, heap="8g")
    for r in ress2:
        out.add_tlc(r)
    for x in v2:
        x["case"] = cases[x["id"] - 1]
        x["text"] = hc[x["id"] - 1]["text"]
        x["diags"] = tr[x["id"] - 1]["diags"]
    out.add_verdicts(v2)
    out.cov["traces_validated_against_impl"] = len(tr) + len(evs)
    out.sample({"text": cases[0]["text"]})
    out.assumptions += [
        "conforming by construction (Gen_Conform templates) and confirmed on the reference machine for a prefix of the programs: every execution ends in the exit ecall without leaving the convention (ra/sp/saved registers restored, no write above the entry sp)",
        "no diagnostic of any kind: parse errors, CFG errors, lints",
    ]
    return out.finish(extra_cov={
        "programs": len(cases), "confirmed_on_machine": len(conf), "machine_stops": sorted(stops), "exhaustive": False,
        "evaluations": len(cases), "distinct_nontrivial": len({c["text"] for c in cases}),
        "rule": "tlc -simulate over Gen_Conform: leaf templates (loop, if-else, stack local, print ecall, two arguments) x non-leaf templates (wrapper with saved register, recursion, two calls with two saved registers) x 5 frame layouts x call sequences of main (<= 3 calls, constants) x optional third function; three spellings (spaces / tabs / numeric registers)",
    })
