--------------------------- MODULE Trace_ParseLoop ---------------------------
(* impl -> spec (C07, as-built): the statement loop of                        *)
(* RVParser::parse_from_file, one event per critical section, recorded by the *)
(* rva_verif hooks in parser/parsing.rs:                                      *)
(*   stmt_begin                      ParserNode::try_from(lexer) is entered    *)
(*   pull(kind, file, line)          a token was taken from the lexer          *)
(*                                   (kind: tok | nl | comment | err | eof)    *)
(*   stmt_end(res, file, line)       its result; for an error the position of  *)
(*                                   the token the error is reported at        *)
(*   recover_begin / skip(kind, file, line)* / recover_end                     *)
(*                                   recover_from_parse_error                  *)
(*   push(file) / import_error / pop the lexer stack                           *)
(* The trace machine below is the loop as the model sees it: a statement      *)
(* lives on one line; an error consumes at most the rest of *its* line; the   *)
(* lexer of a file is dropped only when nothing of a statement is pending.    *)
(* What does not fit is reported:                                             *)
(*   C07:steps:recovery-consumed-text-of-another-line                          *)
(*   C07:steps:failed-statement-consumed-text-of-another-line                  *)
(*   C07:steps:statement-cut-by-end-of-file-vanished                           *)
(*   C07:steps:error-reported-on-another-line                                  *)
(* DRIFT lines tell that the event order itself is not the modelled one.      *)
EXTENDS Integers, Sequences, FiniteSets, TLC, Json, IOUtils
Rec == ndJsonDeserialize(IOEnv.TRACE)

VARIABLES l, phase,      \* "idle" | "stmt" | "after" | "recover"
          first,         \* [file, line] of the first token of the statement in progress (or Nowhere)
          pulled,        \* number of text tokens (tok / err) the statement has taken
          other,         \* did the statement take text of another line?
          res,           \* result of the statement that just ended
          depth          \* height of the lexer stack
vars == <<l, phase, first, pulled, other, res, depth>>

Nowhere == [file |-> 0, line |-> -1]
IsText(k) == k \in {"tok", "err"}
Errors == {"expected", "unexpected_token", "unexpected_error", "unknown_directive", "unsupported", "invalid_string"}

Say(tag, e, key) == PrintT(tag \o " " \o ToJson([id |-> e.gid, prog |-> e.prog, key |-> key]))
Init == l = 1 /\ phase = "idle" /\ first = Nowhere /\ pulled = 0 /\ other = FALSE /\ res = "" /\ depth = 0

Program == /\ Rec[l].ev = "program"
           /\ phase' = "idle" /\ first' = Nowhere /\ pulled' = 0 /\ other' = FALSE /\ res' = "" /\ depth' = 1

StmtBegin ==
  /\ Rec[l].ev = "stmt_begin"
  /\ IF phase \in {"idle", "after"} THEN TRUE ELSE Say("DRIFT", Rec[l], "parse:statement-begins-inside-" \o phase)
  /\ phase' = "stmt" /\ first' = Nowhere /\ pulled' = 0 /\ other' = FALSE /\ res' = "" /\ UNCHANGED depth

Pull ==
  /\ Rec[l].ev = "pull"
  /\ LET e == Rec[l] here == [file |-> e.file, line |-> e.line] IN
     /\ IF phase = "stmt" THEN TRUE ELSE Say("DRIFT", e, "parse:token-taken-outside-a-statement")
     /\ first' = (IF first = Nowhere /\ e.kind # "eof" THEN here ELSE first)
     /\ pulled' = (IF IsText(e.kind) THEN pulled + 1 ELSE pulled)
     /\ other' = (other \/ (IsText(e.kind) /\ first # Nowhere /\ here # first))
  /\ UNCHANGED <<phase, res, depth>>

StmtEnd ==
  /\ Rec[l].ev = "stmt_end"
  /\ LET e == Rec[l] IN
     /\ IF phase = "stmt" THEN TRUE ELSE Say("DRIFT", e, "parse:statement-ends-outside-a-statement")
     /\ IF e.res = "eof" /\ pulled > 0
          THEN Say("VERDICT", e, "C07:steps:statement-cut-by-end-of-file-vanished") ELSE TRUE
     /\ IF e.res \in Errors /\ other
          THEN Say("VERDICT", e, "C07:steps:failed-statement-consumed-text-of-another-line") ELSE TRUE
     /\ IF e.res \in Errors /\ first # Nowhere /\ [file |-> e.file, line |-> e.line] # first
          THEN Say("VERDICT", e, "C07:steps:error-reported-on-another-line") ELSE TRUE
     /\ res' = e.res
  /\ phase' = "after" /\ UNCHANGED <<first, pulled, other, depth>>

RecoverBegin ==
  /\ Rec[l].ev = "recover_begin"
  /\ IF phase = "after" /\ res \in Errors THEN TRUE ELSE Say("DRIFT", Rec[l], "parse:recovery-without-an-error")
  /\ phase' = "recover" /\ UNCHANGED <<first, pulled, other, res, depth>>
Skip ==
  /\ Rec[l].ev = "skip"
  /\ LET e == Rec[l] IN
     /\ IF phase = "recover" THEN TRUE ELSE Say("DRIFT", e, "parse:token-skipped-outside-recovery")
     /\ IF IsText(e.kind) /\ first # Nowhere /\ [file |-> e.file, line |-> e.line] # first
          THEN Say("VERDICT", e, "C07:steps:recovery-consumed-text-of-another-line") ELSE TRUE
  /\ UNCHANGED <<phase, first, pulled, other, res, depth>>
RecoverEnd ==
  /\ Rec[l].ev = "recover_end"
  /\ phase' = "idle" /\ UNCHANGED <<first, pulled, other, res, depth>>

Push == /\ Rec[l].ev \in {"push", "import_error"}
        /\ IF phase = "after" /\ res = "include" THEN TRUE ELSE Say("DRIFT", Rec[l], "parse:import-without-an-include-statement")
        /\ depth' = (IF Rec[l].ev = "push" THEN depth + 1 ELSE depth)
        /\ phase' = "idle" /\ UNCHANGED <<first, pulled, other, res>>
Pop  == /\ Rec[l].ev = "pop"
        /\ IF phase = "after" /\ res = "eof" THEN TRUE ELSE Say("DRIFT", Rec[l], "parse:lexer-dropped-before-its-end")
        /\ IF depth >= 1 THEN TRUE ELSE Say("DRIFT", Rec[l], "parse:pop-of-an-empty-stack")
        /\ depth' = depth - 1
        /\ phase' = "idle" /\ UNCHANGED <<first, pulled, other, res>>

Next == l <= Len(Rec)
        /\ (Program \/ StmtBegin \/ Pull \/ StmtEnd \/ RecoverBegin \/ Skip \/ RecoverEnd \/ Push \/ Pop)
        /\ l' = l + 1
Spec == Init /\ [][Next]_vars
Accepted == IF TLCGet("stats").diameter = Len(Rec) + 1 THEN TRUE
            ELSE PrintT("TRACE-NOT-CONSUMED") /\ FALSE
=============================================================================
