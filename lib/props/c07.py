"""C07 — no source line is silently dropped; a bad line affects only itself."""
import os
from vlib import *
import corpus

PID = "C07"


def run(tier, replay=None):
    out = Outcome(PID, tier)
    wd = os.path.join(WORK, PID)
    rvh = build_harness()
    cases, gres = tlc_generate("Gen_Lines", cfg="Gen_Lines" if tier == "quick" else "Gen_Lines4", coverage=True,
                               heap="8g", timeout=3000)
    out.add_tlc(gres)
    total = len(cases)
    if tier == "quick":
        k = seed() % 4
        cases = [c for i, c in enumerate(cases) if i % 4 == k]
    else:                       # NL = 4: half a million files; every 6th, rotating with the seed
        k = seed() % 6
        cases = [c for i, c in enumerate(cases) if i % 6 == k]
    # one stray symbol (every ASCII punctuation mark, a digit) alone / before / inside / after an instruction
    scases, sres = tlc_generate("Gen_Strays", heap="8g", timeout=3000)
    out.add_tlc(sres)
    total += len(scases)
    if tier == "quick":
        k = seed() % 5
        scases = [c for i, c in enumerate(scases) if i % 5 == k]
    # every token sequence up to length 3 (thorough: 4) over 12 token classes, as a middle / last / unterminated last line
    tcases, tres = tlc_generate("Gen_TokLines", cfg="Gen_TokLines" if tier == "quick" else "Gen_TokLines4", heap="8g", timeout=3000)
    out.add_tlc(tres)
    total += len(tcases)
    if tier == "quick":
        k = seed() % 2
        tcases = [c for i, c in enumerate(tcases) if i % 2 == k]
    # the same stray placements with multi-byte characters (TLA+ strings stay ASCII: '@' is replaced here)
    wide = []
    for c in scases:
        if c["fault"].endswith(":@"):
            for w_ in ("é", "€", "😀", "\u3000"):
                wide.append(dict(c, text=c["text"].replace("@", w_), twin=c["twin"], fault=c["fault"][:-1] + "U+%04X" % ord(w_)))
    cases = cases + scases + tcases + wide
    r = rng("c07")
    items = []   # (case-meta, files_full, files_twin)
    for i, c in enumerate(cases):
        meta = {k: c[k] for k in ("badline", "fault", "ending", "nl")}
        if i % 5 == 0:   # every fifth case goes through an include
            base = '.include "inc.s"\nmv t3, a0\n'
            if i % 10 == 0 and c["badline"] == 0 and c["fault"] != "none":
                # the base file begins with the same malformed line: the same error at the same position of two files
                base = c["text"].split("\n")[0].rstrip("\r") + "\n.include \"zinc.s\"\nmv t3, a0\n"
                meta["gfile"] = 2
                items.append((meta, {"main.s": base, "zinc.s": c["text"]}, {"main.s": base, "zinc.s": c["twin"]}))
                continue
            meta["gfile"] = 2
            items.append((meta, {"main.s": base, "inc.s": c["text"]}, {"main.s": base, "inc.s": c["twin"]}))
        else:
            meta["gfile"] = 1
            items.append((meta, {"main.s": c["text"]}, {"main.s": c["twin"]}))
    # impl -> spec on realistic programs: break one random line of a corpus program in every way
    faults = [("missing-operand", "li a0"), ("stray-at-sign", "@ nonsense"), ("plus-sign", "li a0, 5 + 3"),
              ("unterminated-string", '.ascii "abc'), ("unknown-mnemonic", "frobnicate a0, a1"),
              ("non-ascii", "lï a0, 1"), ("semicolon-comment", "addi a0, a0, 1 ; old-style comment")]
    for name, text in corpus.all_programs().items():
        lines = text.rstrip("\n").split("\n")
        for fname, ftext in faults:
            for ending in ("lf", "crlf", "lf-nofinal"):
                pos = r.randrange(len(lines))
                ls = lines[:pos] + [ftext] + lines[pos:]
                eol = "\r\n" if ending == "crlf" else "\n"
                def join(xs):
                    t = eol.join(xs)
                    return t if ending == "lf-nofinal" else t + eol
                items.append(({"badline": pos, "fault": fname, "ending": ending, "nl": len(ls), "gfile": 1},
                              {"main.s": join(ls)}, {"main.s": join(lines)}))
    if replay:
        w = json.load(open(replay))["witness"]
        items = [(w["meta"], w["files_full"], w["files_twin"])]
    hc = []
    for i, (m, ff, ft) in enumerate(items):
        m["items"] = len(ff) > 1          # multi-file cases: also what RVParser::run reports
        hc.append({"id": 2 * i + 1, "mode": "observe", "files": ff, "base": "main.s",
                   "want": ["files", "nodes", "errors"] + (["items"] if m["items"] else [])})
        hc.append({"id": 2 * i + 2, "mode": "observe", "files": ft, "base": "main.s", "want": ["nodes", "errors"]})
    tp, evs = run_harness_par(rvh, hc, wd, "lines", shards=10)
    merged = [{"id": i + 1, "case": items[i][0], "full": evs[2 * i], "twin": evs[2 * i + 1]} for i in range(len(items))]
    for m in merged:
        for side in ("full", "twin"):
            m[side].setdefault("files", [])
            m[side].setdefault("nodes", [])
            m[side].setdefault("errors", [])
            m[side].setdefault("items", [])
    # as-built binding: the statement loop of the parser, token by token, on every full file of this run
    pc = [{"id": i + 1, "mode": "parse", "files": ff, "base": "main.s"} for i, (m, ff, ft) in enumerate(items)]
    tp2, pevs = run_harness_par(rvh, pc, wd, "parse", shards=6)
    ptrace, chunks, cur = [], [], []
    nparse = 0
    for i, e in enumerate(pevs):
        if e["ev"] != "parse":
            continue
        nparse += 1
        evs_i = [{"ev": "program", "prog": i + 1}] + [dict(x, prog=i + 1) for x in e["events"]]
        if len(cur) + len(evs_i) > 40000:
            chunks.append(cur)
            cur = []
        cur += evs_i
    if cur:
        chunks.append(cur)
    pv, pdrift = [], []
    from concurrent.futures import ThreadPoolExecutor

    def one(k):
        for j, x in enumerate(chunks[k]):
            x["gid"] = j + 1
        path = os.path.join(wd, f"parse.chunk.{k}.ndjson")
        write_ndjson(path, chunks[k])
        r = tlc_validate("Trace_ParseLoop", path, heap="6g", workdir=os.path.join(WORK, "tlc", f"Trace_ParseLoop.{k}"))
        os.remove(path)
        return r
    with ThreadPoolExecutor(max_workers=4) as ex:
        presults = list(ex.map(one, range(len(chunks))))
    nevents = sum(len(c) for c in chunks)
    for vv, acc, res in presults:
        if not acc:
            raise ToolError("Trace_ParseLoop: trace not consumed")
        out.add_tlc(res)
        for x in vv:
            m, ff, ft = items[x["prog"] - 1]
            x["id"] = x["prog"]
            x["meta"], x["files_full"], x["files_twin"] = m, ff, ft
        pv += vv
        pdrift += res.tagged("DRIFT")
    for d in pdrift[:20]:
        out.drift.append({"key": d["key"], "files": items[d["prog"] - 1][1]})
    if pdrift:
        dk = {}
        for d in pdrift:
            dk[d["key"]] = dk.get(d["key"], 0) + 1
        out.notes.append("SPEC-DRIFT (the statement loop no longer follows Trace_ParseLoop.tla; not a violation): " + json.dumps(dk))
    v, ress = validate_chunks("Trace_Lines", merged, wd, "lines.merged", chunk=6000, heap="8g")
    for res in ress:
        out.add_tlc(res)
    for x in v:
        m, ff, ft = items[x["id"] - 1]
        x["meta"], x["files_full"], x["files_twin"] = m, ff, ft
    out.add_verdicts(v)
    out.add_verdicts(pv)
    out.cov["traces_validated_against_impl"] = len(merged)
    out.cov["parse_loop_step_traces"] = {"files": nparse, "events": nevents, "drift": len(pdrift)}
    out.sample({"text": cases[0]["text"], "fault": cases[0]["fault"], "ending": cases[0]["ending"]})
    out.sample({"text": cases[-1]["text"], "fault": cases[-1]["fault"], "ending": cases[-1]["ending"]})
    out.sample({"corpus": True, "fault": items[-1][0]["fault"], "text": items[-1][1]["main.s"][:200]})
    out.assumptions += [
        "step traces of the statement loop (rva_verif hooks) are judged token by token by Trace_ParseLoop: a statement lives on one line, an error consumes at most the rest of its own line, a lexer is dropped only when nothing is pending",
        "a line is blank if it holds only spaces, tabs, commas or CR; comment-only if its first other character is '#'",
        "an error 'located on' a line = its raw range lies on that line (positions are judged by C09)",
        "containment compares (kind, mnemonic, operands, label, csr, directive, data values) of all nodes of the other lines",
    ]
    return out.finish(extra_cov={
        "generated_files_total": total, "generated_files_run": len(cases), "files_with_twin": len(items),
        "exhaustive": False,
        "evaluations": 2 * len(items), "distinct_nontrivial": len({json.dumps(i[1], sort_keys=True) for i in items}),
        "rule": "Gen_TokLines: every sequence of <= 3 (thorough 4) tokens over 12 token classes as middle / last / unterminated last line (quick: every 2nd); Gen_Strays: 29 stray symbols x 5 placements x line position x good-line context x 2 endings (quick: every 5th); Gen_Lines: NL-line files (quick NL=3, every 4th case rotating with seed; thorough NL=4, every 6th) = good-line choices (17 kinds incl. string directives) x 19 fault kinds x position x 3 line endings, every fifth through .include; + 7 faults x 3 endings injected at a random line of every repository/corpus program; each with its line-deleted twin",
    })
