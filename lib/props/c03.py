"""C03 — the control-flow graph matches the program's real control flow (static part;
static judge Trace_Cfg + dynamic edge monitor on the reference machine)."""
from props.cfgcommon import *
import props.execcommon as ex

PID = "C03"


def run(tier, replay=None):
    out, stats, ngen = run_flow(PID, tier, replay, "C03:")
    # dynamic part: edge monitor on the reference machine (shared run with C01/C02)
    res = ex.exec_verdicts(tier, json.load(open(replay))["witness"]["text"] if replay else None)
    dstats = ex.fill(out, res, "C03:dynamic")
    stats["executions"] = dstats["executions"]
    stats["machine_stop_reasons"] = dstats["stop_reasons"]
    out.assumptions += [
        "domain: no indirect jumps other than ret, no jal with a link register other than ra/x0, no reachable path running off the end of the file",
        "exit ecalls are recognised from the analyzer's own a7 facts (their truth is C01's business)",
        "fall-through of an always-taken branch (beq/bge/bgeu x0,x0) may be absent",
    ]
    return out.finish(extra_cov=dict(stats, exhaustive=False, evaluations=stats["programs"],
                                     distinct_nontrivial=stats["programs_cfg_ok"],
                                     rule="Gen_Flow: tlc -simulate n=3..7 over 4 shapes (+ exhaustive n=2 in the thorough tier); + repository/corpus programs; non-trivial = programs whose CFG was built and judged edge by edge"))
