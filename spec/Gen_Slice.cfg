CONSTANT N = 3
INIT Init
NEXT Next
CHECK_DEADLOCK FALSE
