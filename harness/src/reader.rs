//! In-memory FileReader used by the conformance harness.
//!
//! Semantics of a *correct* reader (the environment the properties quantify
//! over): paths are resolved relative to nothing (flat namespace), each path
//! has one stable UUID, a file that is currently on the include stack or was
//! read before reports `FileAlreadyRead`, a missing file `InvalidPath`
//! (-> "File not found"), an injected IO fault `IOErr`.
use riscv_analysis::reader::{FileReader, FileReaderError};
use std::collections::HashMap;
use uuid::Uuid;

#[derive(Clone, Default)]
pub struct MemReader {
    pub files: HashMap<String, String>,
    /// path -> fault kind ("io" | "notfound" | "already")
    pub faults: HashMap<String, String>,
    pub ids: HashMap<String, Uuid>,
    pub read: HashMap<Uuid, String>,
    pub order: Vec<(Uuid, String)>,
    pub base: Option<Uuid>,
    /// if true, never report FileAlreadyRead (mimics the CLI reader)
    pub no_cycle_detection: bool,
    pub imports: usize,
}

impl MemReader {
    pub fn new(files: HashMap<String, String>) -> Self {
        MemReader {
            files,
            ..Default::default()
        }
    }
    pub fn file_index(&self, id: Uuid) -> i64 {
        self.order
            .iter()
            .position(|(u, _)| *u == id)
            .map_or(-1, |x| x as i64 + 1)
    }
    pub fn name_of(&self, id: Uuid) -> String {
        self.read.get(&id).cloned().unwrap_or_default()
    }
}

impl FileReader for MemReader {
    fn import_file(
        &mut self,
        path: &str,
        _parent: Option<Uuid>,
    ) -> Result<(Uuid, String), FileReaderError> {
        self.imports += 1;
        if self.imports > 10_000 {
            // keep runaway include recursion observable instead of exhausting memory
            return Err(FileReaderError::IOErr("harness import budget".into()));
        }
        match self.faults.get(path).map(String::as_str) {
            Some("io") => return Err(FileReaderError::IOErr("injected".into())),
            Some("notfound") => return Err(FileReaderError::InvalidPath),
            Some("already") => return Err(FileReaderError::FileAlreadyRead(path.into())),
            _ => {}
        }
        let Some(text) = self.files.get(path).cloned() else {
            return Err(FileReaderError::InvalidPath);
        };
        if let Some(id) = self.ids.get(path) {
            if !self.no_cycle_detection {
                return Err(FileReaderError::FileAlreadyRead(path.into()));
            }
            let _ = id;
        }
        let id = Uuid::new_v4();
        self.ids.insert(path.to_string(), id);
        self.read.insert(id, path.to_string());
        self.order.push((id, path.to_string()));
        self.base.get_or_insert(id);
        Ok((id, text))
    }
    fn get_text(&self, uuid: Uuid) -> Option<String> {
        self.read.get(&uuid).and_then(|p| self.files.get(p)).cloned()
    }
    fn get_filename(&self, uuid: Uuid) -> Option<String> {
        self.read.get(&uuid).cloned()
    }
    fn get_base_file(&self) -> Option<Uuid> {
        self.base
    }
}
