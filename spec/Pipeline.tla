------------------------------ MODULE Pipeline ------------------------------
(* As-built model of the rounds in Manager::gen_full_cfg (after function      *)
(* markup): the value analysis (PassLoop: Visit / SweepEnd, unchanged) and    *)
(* EcallTerminationPass take turns.  An ecall node is an exit when the fact   *)
(* `ExitFact` ("a7 holds 10 or 93") reaches it; the termination pass removes  *)
(* the out-edges of every such node; removing edges changes what reaches the  *)
(* other ecall nodes.                                                          *)
(*   Loop = TRUE   the rounds are repeated until nothing is cut (fix b8ae840) *)
(*   Loop = FALSE  two fixed rounds (the pipeline as pinned)                   *)
(* Design properties when the pipeline has finished:                           *)
(*   Consistent        the facts are the fixed point of the graph as it is    *)
(*                     (what C12 observes by running the pass once more)      *)
(*   EdgesStopAtExits  no ecall that the facts call an exit has a successor   *)
(*                     (C03)                                                   *)
(* With Loop = FALSE TLC finds the chain of two dependent exits in a three-   *)
(* node graph (Pipeline_old.cfg, negative control).                           *)
EXTENDS PassLoop
CONSTANTS Loop, ExitFact
VARIABLES ecall, stage, rounds
pvars == <<vars, ecall, stage, rounds>>

PInit == Init /\ ecall \in SUBSET Nodes /\ stage = "values" /\ rounds = 1

PVisit    == Visit    /\ UNCHANGED <<ecall, stage, rounds>>
PSweepEnd == SweepEnd /\ UNCHANGED <<ecall, stage, rounds>>

Exits == { n \in ecall : ExitFact \in fin[n] }
\* EcallTerminationPass::run, then the test at the end of the round
Terminate ==
  /\ pc = "done" /\ stage = "values"
  /\ LET cut == { n \in Exits : nexts[n] # {} }
         again == IF Loop THEN cut # {} ELSE rounds < 2
     IN /\ nexts' = [n \in Nodes |-> IF n \in cut THEN {} ELSE nexts[n]]
        /\ IF again
             THEN /\ rounds' = rounds + 1 /\ stage' = "values" /\ pc' = "visit" /\ run' = run + 1
                  /\ visited' = {} /\ roots' = {} /\ changed' = FALSE /\ waiting' = 0 /\ cursor' = 1 /\ sweeps' = 1
                  /\ saved' = <<fin, fout>>
             ELSE /\ stage' = "finished" /\ UNCHANGED <<rounds, pc, run, visited, roots, changed, waiting, cursor, sweeps, saved>>
  /\ UNCHANGED <<gen, kill, fin, fout, cutDone, ecall>>

PNext == PVisit \/ PSweepEnd \/ Terminate
PSpec == PInit /\ [][PNext]_pvars /\ WF_pvars(PNext)

Consistent == stage = "finished" =>
                \A n \in Nodes : /\ fin[n] = RootIn(RootsAreEntries, roots, n, Meet(Prevs(n)))
                                 /\ fout[n] = F(n, fin[n])
EdgesStopAtExits == stage = "finished" => \A n \in Exits : nexts[n] = {}
RoundsBound == rounds <= N + 1        \* every further round cut at least one more node
PTerminates == <>(stage = "finished")
=============================================================================
