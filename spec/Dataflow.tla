------------------------------ MODULE Dataflow ------------------------------
(***************************************************************************)
(* Reference: the documented liveness equations (comments of               *)
(* analysis/liveness.rs, docs/argument-guess.md) and their least solution  *)
(* by Kleene iteration from the empty sets, over the projected Cfg.        *)
(*                                                                         *)
(*   live_out[n] = U live_in[s], s in next[n]                              *)
(*   call site n of F : live_in[n] = (live_out[entry F] & args)            *)
(*                                   U (live_out[n] - caller-saved) U gen  *)
(*                      live_in[exit F] includes live_out[n]               *)
(*   ecall            : live_in = (live_out - caller-saved) U {a7} U args  *)
(*   return / exit    : live_in includes gen (callee-saved registers)      *)
(*   function entry   : live_in = live_out - caller-saved                  *)
(*   otherwise        : live_in = gen U (live_out - kill)                  *)
(* A jump or branch whose target label is a function counts as a call site *)
(* ("functions may be called by jumping to them").                         *)
(***************************************************************************)
EXTENDS Machine

AllWritable == 1..31
CalleeSavedSet == SavedRegs \cup {1, 2}
CallerSavedSet == TempRegs \cup ArgRegs

FRows(cfg) == 1..Len(cfg.funcs)
RowOfLabel(cfg, L) == { k \in FRows(cfg) : cfg.funcs[k].label = L }
\* the function a node calls (row index) or 0
CallRow(cfg, i) ==
  LET n == cfg.nodes[i].node
      lab == IF n.k = "JumpLink" \/ n.k = "Branch" THEN n.lab ELSE ""
      isCallLike == (n.k = "JumpLink" /\ n.rd \in {0, 1}) \/ n.k = "Branch"
      rows == IF isCallLike /\ lab # "" THEN RowOfLabel(cfg, lab) ELSE {}
  IN IF rows = {} THEN 0 ELSE CHOOSE k \in rows : TRUE

IsReturnNode(n) == Kind(n) = "ret"
GenL(n) == IF n.k = "Basic" /\ n.op = "uret" THEN AllWritable
           ELSE IF IsReturnNode(n) THEN CalleeSavedSet
           ELSE ArchReads(Norm(n))
KillL(n) == IF (n.k = "JumpLink" /\ n.rd = 1) \/ n.k = "FuncEntry" THEN CallerSavedSet
            ELSE ArchWrites(Norm(n))

EcallArgs(x) ==
  LET v == RegIn(x, 17) IN
  IF v.t = "c" /\ KnownEcall(v.n) THEN EcallSig(v.n)[1] ELSE {}

Exits(cfg) == { cfg.funcs[k].exit : k \in FRows(cfg) }
\* call sites whose function has exit e
SitesOfExit(cfg, e) == { i \in 1..NN(cfg) : CallRow(cfg, i) # 0 /\ cfg.funcs[CallRow(cfg, i)].exit = e }

LiveOutOf(cfg, LI) == [i \in 1..NN(cfg) |-> UNION { LI[s] : s \in SeqSet(cfg.nodes[i].nexts) }]

LiveStep(cfg, LI) ==
  LET LO == LiveOutOf(cfg, LI) IN
  [i \in 1..NN(cfg) |->
     LET x == cfg.nodes[i] n == x.node row == CallRow(cfg, i) IN
     IF row # 0
       THEN (LO[cfg.funcs[row].entry] \cap ArgRegs) \cup (LO[i] \ KillL(n)) \cup GenL(n)
     ELSE IF Kind(n) = "ecall"
       THEN (LO[i] \ CallerSavedSet) \cup {17} \cup EcallArgs(x)
     ELSE IF IsReturnNode(n) \/ i \in Exits(cfg)
       THEN LI[i] \cup GenL(n) \cup (LO[i] \ KillL(n)) \cup UNION { LO[c] : c \in SitesOfExit(cfg, i) }
     ELSE IF n.k = "FuncEntry"
       THEN LO[i] \ CallerSavedSet
     ELSE GenL(n) \cup (LO[i] \ KillL(n))]

RECURSIVE LiveIter(_, _, _)
LiveIter(cfg, LI, fuel) ==
  LET L2 == LiveStep(cfg, LI) IN
  IF L2 = LI \/ fuel = 0 THEN LI ELSE LiveIter(cfg, L2, fuel - 1)

LiveLFP(cfg) ==
  LET LI == LiveIter(cfg, [i \in 1..NN(cfg) |-> {}], 40 * NN(cfg) + 40)
  IN [li |-> LI, lo |-> LiveOutOf(cfg, LI)]
=============================================================================
