"""C10 — output is deterministic and free of duplicate diagnostics."""
import os
import subprocess
import tempfile
from vlib import *
import corpus

PID = "C10"
MULTI = {
    "main.s": '.include "lib.s"\nmain:\n    li t0, 1\n    call f\n    add a0, a0, t0\n    li a7, 10\n    ecall\n.include "tail.s"\n',
    "lib.s": "f:\n    li s1, 3\n    mv a0, t2\n    ret\n",
    "tail.s": "dead:\n    li a2, 2\n",
}


def run(tier, replay=None):
    out = Outcome(PID, tier)
    wd = os.path.join(WORK, PID)
    rvh = build_harness()
    rva = build_cli()
    R = 8 if tier == "quick" else 32
    if replay:
        texts = [json.load(open(replay))["witness"]["text"]]
        tres = []
    else:
        nval, nflow = (80, 200) if tier == "quick" else (1500, 4000)
        r1 = run_tlc("Gen_Values", cfg="Gen_Values_sim", simulate=nval, depth=30, workers=4, seed_=seed() * 3 + 1)
        r2 = run_tlc("Gen_Flow", cfg="Gen_Flow_sim", simulate=nflow, depth=40, workers=4, seed_=seed() * 11 + 2, heap="6g")
        tres = [r1, r2]
        texts = [c["text"] for c in r1.tagged("CASE")] + [c["text"] for c in r2.tagged("CASE")]
        cres = run_tlc("Gen_Conform", cfg="Gen_Conform", simulate=(30 if tier == "quick" else 600), depth=10, workers=4, seed_=seed() * 59 + 4)
        texts += list(dict.fromkeys(c["text"] for c in cres.tagged("CASE"))) + corpus.SHARED_PROGRAMS
        texts += list(corpus.all_programs().values()) + corpus.VALUE_PROGRAMS + corpus.LOOP_PROGRAMS + corpus.ORDER_PROGRAMS
        texts += shared_programs(tier, out, part=4) + corpus.DUP_PROGRAMS
        texts = list(dict.fromkeys(texts))
    for r in tres:
        out.add_tlc(r)
    hc = [{"id": i + 1, "mode": "runs", "text": t, "repeat": R} for i, t in enumerate(texts)]
    hc.append({"id": len(hc) + 1, "mode": "runs", "files": MULTI, "base": "main.s", "repeat": R})
    # every cutting of the order-sensitive programs into two files (a segment of <= 4 lines moved into inc.s)
    cut_inputs = []
    for prog in corpus.ORDER_PROGRAMS + corpus.MULTIFILE_ORDER + [corpus.VIOLATING]:
        ls = prog.rstrip("\n").split("\n")
        for a in range(1, len(ls)):
            for b in range(a, min(a + 4, len(ls))):
                if (a + b) % (1 if tier == "thorough" else 3) == 0:
                    files = {"main.s": "\n".join(ls[:a] + ['.include "inc.s"'] + ls[b + 1:]) + "\n", "inc.s": "\n".join(ls[a:b + 1]) + "\n"}
                    cut_inputs.append(files)
                    hc.append({"id": len(hc) + 1, "mode": "runs", "files": files, "base": "main.s", "repeat": R})
    for files in corpus.TWIN_FILES:
        cut_inputs.append(files)
        hc.append({"id": len(hc) + 1, "mode": "runs", "files": files, "base": "main.s", "repeat": R})
    tp, evs = run_harness_par(rvh, hc, wd, "runs", timeout_ms=60000)
    evs = [e if e["ev"] == "runs" else {"ev": "skip", "id": e["id"]} for e in evs]
    # separate processes, every output mode
    cli_texts = (corpus.ORDER_PROGRAMS + corpus.VALUE_PROGRAMS[:3] + texts[:10]) if tier == "quick" else texts[:150] + corpus.ORDER_PROGRAMS
    P = 4 if tier == "quick" else 8
    modes = [["--json"], ["--compact"], ["--compact", "--all-files"], ["--no-color"], ["--yaml", "--no-output"], ["--debug", "--no-output"]]
    ncli = 0
    with tempfile.TemporaryDirectory(dir=WORK) as td:
        for k, t in enumerate(cli_texts + [None]):
            d = os.path.join(td, str(k))
            os.makedirs(d)
            files = MULTI if t is None else {"main.s": t}
            for n, c in files.items():
                open(os.path.join(d, n), "w").write(c)
            for m in modes:
                outs = []
                for _ in range(P):
                    try:
                        p = subprocess.run([rva, "lint", os.path.join(d, "main.s")] + m, stdout=subprocess.PIPE,
                                           stderr=subprocess.DEVNULL, timeout=20)
                        outs.append(p.stdout.decode("utf-8", "replace").replace(d, "<dir>"))
                    except subprocess.TimeoutExpired:
                        outs.append("<timeout>")
                ncli += P
                evs.append({"ev": "cli", "id": len(evs) + 1, "mode": " ".join(m), "outs": outs,
                            "text": t if t is not None else json.dumps(MULTI)})
    alltexts = texts + [json.dumps(MULTI)] + [json.dumps(f) for f in cut_inputs] + [e["text"] for e in evs if e["ev"] == "cli"]
    for e in evs:
        e.pop("text", None)
    v, ress = validate_chunks("Trace_Runs", evs, wd, "runs.chunk", chunk=2000, heap="8g")
    for r in ress:
        out.add_tlc(r)
    for x in v:
        x["text"] = alltexts[x["id"] - 1]
    out.add_verdicts(v)
    out.cov["traces_validated_against_impl"] = len(evs)
    out.sample({"text": texts[0], "repeat": R})
    out.sample({"files": MULTI, "modes": [" ".join(m) for m in modes]})
    out.assumptions += [
        "detection of an order dependence is probabilistic: R in-process runs (fresh UUIDs and hash seeds per parse) and P processes per mode",
        "duplicate = two items of one run equal in title, level, file, range, description and related information",
        "temporary directory names are masked in CLI output",
    ]
    return out.finish(extra_cov={
        "programs": len(texts) + 1 + len(cut_inputs), "two_file_cuttings": len(cut_inputs), "in_process_runs_per_program": R, "cli_runs": ncli, "cli_programs": len(cli_texts) + 1,
        "modes": [" ".join(m) for m in modes], "exhaustive": False,
        "evaluations": (len(texts) + 1) * R + ncli, "distinct_nontrivial": len(texts) + 1,
        "rule": "programs from Gen_Values / Gen_Flow (tlc -simulate; shared code, several labels per entry, several returns), the corpus, order-sensitive hand-written programs and a 3-file include program; each linted R times in one process (RVParser::run) and P times per output mode in separate rva processes",
    })
