SPECIFICATION Spec
CONSTANTS
  N = 4
  Facts = {p}
  MaxOut = 2
  Runs = 1
  FirstVisitCounts = TRUE
  WaitForVisited = TRUE
  RootsAreEntries = FALSE
CONSTRAINT NoKill
INVARIANTS SweepBound
CHECK_DEADLOCK FALSE
