------------------------------ MODULE PassLoop ------------------------------
(* As-built model of the iteration scheme of AvailableValuePass::run          *)
(* (riscv_analysis/src/analysis/available.rs), one action per critical        *)
(* section of the code:                                                        *)
(*   Visit    - the body of `for node in cfg.iter()` for the node at `cursor`  *)
(*              (wait / compute in / compute out / changed |= ... / visited)   *)
(*   SweepEnd - the end of one `while changed` iteration (continue, promote    *)
(*              the first waiting node to a root, or stop)                     *)
(*   Cut      - what happens between two runs of the pass in                   *)
(*              Manager::gen_full_cfg: EcallTerminationPass removes the        *)
(*              out-edges of a node (facts stay attached to the nodes)         *)
(*   Rerun    - the pass is started again on the graph as it is (the pipeline  *)
(*              runs it three times; C12's histories run it again)             *)
(* The transfer function of a node is abstracted to gen/kill over a finite set *)
(* of facts (`out = (in \ kill) \cup gen`): monotone, like the rules of the    *)
(* real pass; an entry node's "callee-saved registers hold their entry value"  *)
(* is a gen.  What is modelled exactly is the control skeleton: the sweep      *)
(* order, the `visited` filter on predecessors, the waiting / root rule, the   *)
(* `changed` computation and facts that persist from one run to the next.      *)
(*                                                                             *)
(* Design properties (TLC, all graphs up to the bound):                        *)
(*   SweepBound   every run stops within ModelSweepLimit(N) sweeps (C12, C06)  *)
(*   FixedPoint   when a run stops, in[n] is the meet of the out of ALL        *)
(*                predecessors (nothing, for a node that had to be promoted    *)
(*                to a root: it is an entry of unreachable code) and           *)
(*                out[n] = F(in[n])                                 (C12)      *)
(*   Stable       a run started on the facts a run left behind changes         *)
(*                nothing                                           (C12)      *)
(* The switches FirstVisitCounts / WaitForVisited select the scheme before the *)
(* repairs 35309c1 / 3bcec8a, RootsAreEntries the one before the roots were    *)
(* pinned; with any of them off TLC finds the counterexample (PassLoop_old*.cfg *)
(* are the negative controls of this model; old3 needs N = 4: facts that flip  *)
(* between two states for ever - found by this model, then reproduced on the   *)
(* real pass with an unreachable region of five statements).                   *)
(* The same skeleton without the wait rule (WaitForVisited = FALSE,            *)
(* FirstVisitCounts = FALSE) is the loop in which LivenessPass::run computes   *)
(* its u_def sets; UnvisitedIsTop is its repair 7f73c33 (PassLoop_Udef*.cfg;   *)
(* the order of the sweep does not matter to a model that enumerates all       *)
(* graphs).  Without it TLC finds the same kind of lasso at N = 4              *)
(* (PassLoop_Udef_old.cfg) - a prediction that brute force over unreachable    *)
(* regions with link jumps then confirmed on the real pass.                    *)
EXTENDS Integers, Sequences, FiniteSets, TLC, PassOps

CONSTANTS N,                  \* number of nodes; cfg.iter() visits 1, 2, .., N
          Facts,              \* abstract facts ("t0 = 1", "sp = entry sp - 8", ...)
          MaxOut,             \* out-degree bound of the enumerated graphs
          Runs,               \* number of runs of the pass (>= 2: the last one must change nothing)
          FirstVisitCounts,   \* TRUE: `changed |= visited.insert(node)`   (35309c1)
          WaitForVisited,     \* TRUE: a node none of whose predecessors was visited waits (3bcec8a, 8e3b21a)
          UnvisitedIsTop,     \* TRUE: a node with predecessors none of which was visited starts from "everything" (the
                              \*       u_def computation inside LivenessPass::run after its repair; it has no wait rule)
          RootsAreEntries     \* TRUE: a node that was promoted to a root starts from "nothing known" at every visit,
                              \*       like an entry of the program (FALSE: only at its first visit - the scheme
                              \*       that TLC refutes at N = 4: facts flip between two states for ever)

Nodes == 1..N

VARIABLES nexts, gen, kill,           \* the graph and the transfer functions (Cut changes nexts)
          fin, fout,                  \* the facts attached to the nodes (persist between runs)
          visited, roots, changed, waiting, cursor, sweeps,   \* locals of one run
          run,                        \* number of the current run
          pc,                         \* "visit" | "done"
          saved,                      \* the facts the current run started from
          cutDone                     \* has the graph been cut since the last run ended?
vars == <<nexts, gen, kill, fin, fout, visited, roots, changed, waiting, cursor, sweeps, run, pc, saved, cutDone>>

Prevs(n) == { p \in Nodes : n \in nexts[p] }
Meet(S)  == MeetOut(fout, S)
F(n, i)  == (i \ kill[n]) \cup gen[n]

Init ==
  /\ nexts \in [Nodes -> { S \in SUBSET Nodes : Cardinality(S) <= MaxOut }]
  /\ gen   \in [Nodes -> SUBSET Facts]
  /\ kill  \in [Nodes -> SUBSET Facts]
  /\ \A n \in Nodes : gen[n] \cap kill[n] = {}          \* (kill then gen) = gen: one representative
  /\ fin  = [n \in Nodes |-> {}]
  /\ fout = [n \in Nodes |-> {}]
  /\ visited = {} /\ roots = {} /\ changed = FALSE /\ waiting = 0 /\ cursor = 1 /\ sweeps = 1
  /\ run = 1 /\ pc = "visit" /\ saved = <<fin, fout>> /\ cutDone = FALSE

\* ---- for node in cfg.iter() { ... }
Visit ==
  /\ pc = "visit" /\ cursor <= N
  /\ LET n  == cursor
         vp == Prevs(n) \cap visited
     IN IF ShouldWait(WaitForVisited, Prevs(n), visited, roots, n)
          THEN /\ waiting' = (IF waiting = 0 THEN n ELSE waiting)
               /\ UNCHANGED <<fin, fout, visited, changed, saved>>
          ELSE LET i == IF UnvisitedIsTop /\ Prevs(n) # {} /\ vp = {} THEN Facts
                        ELSE RootIn(RootsAreEntries, roots, n, Meet(vp))
                   o == F(n, i)
               IN /\ fin'  = [fin  EXCEPT ![n] = i]
                  /\ fout' = [fout EXCEPT ![n] = o]
                  /\ changed' = ChangedAfter(changed, i, o, fin[n], fout[n], n \notin visited, FirstVisitCounts)
                  /\ UNCHANGED saved
                  /\ visited' = visited \cup {n}
                  /\ UNCHANGED waiting
  /\ cursor' = cursor + 1
  /\ UNCHANGED <<nexts, gen, kill, roots, sweeps, run, pc, cutDone>>

\* ---- end of one iteration of `while changed`
SweepEnd ==
  /\ pc = "visit" /\ cursor = N + 1
  /\ LET what == SweepOutcome(changed, waiting) IN
     CASE what = "again"   -> /\ changed' = FALSE /\ waiting' = 0 /\ cursor' = 1 /\ sweeps' = sweeps + 1
                              /\ UNCHANGED <<roots, pc>>
       [] what = "promote" -> /\ roots' = roots \cup {waiting}
                              /\ changed' = FALSE /\ waiting' = 0 /\ cursor' = 1 /\ sweeps' = sweeps + 1
                              /\ UNCHANGED pc
       [] what = "stop"    -> /\ pc' = "done" /\ UNCHANGED <<roots, changed, waiting, cursor, sweeps>>
  /\ UNCHANGED <<nexts, gen, kill, fin, fout, visited, run, saved, cutDone>>

\* ---- EcallTerminationPass between two runs: a node loses its out-edges
Cut ==
  /\ pc = "done" /\ ~cutDone /\ run < Runs - 1      \* the last two runs see the same graph
  /\ \E n \in Nodes : /\ nexts[n] # {}
                      /\ nexts' = [nexts EXCEPT ![n] = {}]
  /\ cutDone' = TRUE
  /\ UNCHANGED <<gen, kill, fin, fout, visited, roots, changed, waiting, cursor, sweeps, run, pc, saved>>

\* ---- AvailableValuePass::run(&mut cfg) once more (fresh locals, facts stay)
Rerun ==
  /\ pc = "done" /\ run < Runs
  /\ run' = run + 1 /\ pc' = "visit"
  /\ visited' = {} /\ roots' = {} /\ changed' = FALSE /\ waiting' = 0 /\ cursor' = 1 /\ sweeps' = 1
  /\ saved' = <<fin, fout>> /\ cutDone' = FALSE
  /\ UNCHANGED <<nexts, gen, kill, fin, fout>>

Next == Visit \/ SweepEnd \/ Cut \/ Rerun
Spec == Init /\ [][Next]_vars /\ WF_vars(Next)

\* ------------------------------------------------------------------ properties
SweepBound == sweeps <= ModelSweepLimit(N)
\* a slice of the graphs for the negative control at N = 4 (PassLoop_old3.cfg)
NoKill == \A n \in Nodes : kill[n] = {} /\ gen[n] = (IF n = N THEN Facts ELSE {})
KillFree == \A n \in Nodes : kill[n] = {}
GenAt2 == \A n \in Nodes : kill[n] = {} /\ gen[n] = (IF n = 2 THEN Facts ELSE {})
FixedPoint == (pc = "done" /\ ~cutDone) =>
                \A n \in Nodes : /\ fin[n] = RootIn(RootsAreEntries, roots, n, Meet(Prevs(n)))
                                 /\ fout[n] = F(n, fin[n])
\* a run that started on the facts of a finished run of the same graph ends with the same facts
\* (facts may change and change back while it runs)
Stable == (pc = "done" /\ run = Runs) => <<fin, fout>> = saved
AllVisited == pc = "done" => visited = Nodes
Terminates == <>(pc = "done" /\ run = Runs)
=============================================================================
