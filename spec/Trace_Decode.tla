--------------------------- MODULE Trace_Decode ---------------------------
(* impl -> spec: the nodes the real parser built for a generated line are   *)
(* validated against ISA!RefDecode: base instructions structurally, pseudo- *)
(* instructions by executing both sides with ISA!ExecNode on a value grid;  *)
(* reads_from / writes_to / calls_to / jumps_to / is_return against the     *)
(* architectural definitions.                                               *)
EXTENDS ISA, Json, IOUtils, Integers
Rec == ndJsonDeserialize(IOEnv.TRACE)
VARIABLES l
vars == <<l>>

SeqToSet(s) == { s[i] : i \in 1..Len(s) }

\* instruction nodes of the first statement: after ProgramEntry, before label L
RECURSIVE FirstLabel(_, _)
FirstLabel(ns, i) == IF i > Len(ns) THEN Len(ns) + 1 ELSE IF ns[i].k = "Label" THEN i ELSE FirstLabel(ns, i + 1)
StmtNodes(ns) == SubSeq(ns, 2, FirstLabel(ns, 1) - 1)

CsrFamily == {"csrw", "csrs", "csrc"}

PropsOk(n) ==
  LET nn == Norm(n) IN
  /\ SeqToSet(n.reads) \ {0} = ArchReads(nn)
  /\ ({n.writes} \ {0, -1}) = ArchWrites(nn)
  /\ n.calls = (IF nn.k = "JumpLink" /\ nn.rd = 1 THEN nn.lab ELSE "")
  /\ n.jumps = (IF nn.k = "Branch" \/ (nn.k = "JumpLink" /\ nn.rd # 1) THEN nn.lab ELSE "")
  /\ (nn.op # "uret" => (n.ret = (nn.k = "JumpLinkR" /\ nn.rd = 0 /\ nn.rs1 = 1 /\ nn.imm = 0)))
  \* the sets the dataflow analyses use: what is overwritten (all caller-saved registers at a call), what is read
  \* (a return reads the callee-saved registers: that is how "restored" is checked)
  /\ (IF nn.k = "JumpLink" /\ nn.rd = 1       \* (whether ra itself is in the set is left open: the passes treat it apart)
        THEN TempRegs \cup ArgRegs \subseteq SeqToSet(n.kill) /\ SeqToSet(n.kill) \subseteq CallerSaved
        ELSE SeqToSet(n.kill) = ArchWrites(nn))
  /\ (nn.op # "uret" /\ ~(nn.k = "JumpLinkR" /\ nn.rd = 0 /\ nn.rs1 = 1 /\ nn.imm = 0)
        => SeqToSet(n.gen) = ArchReads(nn))
  /\ n.ecall = (nn.op = "ecall")
  /\ n.addrof = (IF nn.k = "LoadAddr" THEN nn.lab ELSE "")

K(c, what) == "C08:decode:" \o c.mn \o ":" \o c.form \o ":" \o what

Judge(e) ==
  LET c == e.case IN
  IF e.ev # "obs" THEN << K(c, e.ev) >>
  ELSE
  LET obsn == StmtNodes(e.nodes)
      obs  == [i \in 1..Len(obsn) |-> Norm(obsn[i])]
      ref  == RefDecode(c.mn, c.form, c.o)
      rejected == Len(e.errors) > 0 \/ Len(obsn) = 0
  IN
  IF rejected
    THEN (IF c.mn \in CsrFamily THEN <<>> ELSE << K(c, "rejected") >>)
  ELSE
    (IF IsPseudo(c.mn) \/ (c.form \in {"rd,lab", "rs2,lab,tmp", "rs2,imm,tmp"} /\ c.mn # "jal")
       THEN (IF \A i \in 1..Len(obs) : HasSemantics(obs[i])
               THEN (IF Equivalent(obs, ref) THEN <<>> ELSE << K(c, "semantics") >>)
               ELSE (IF obs = ref THEN <<>> ELSE << K(c, "fields") >>))   \* RV64-only forms: structural
       ELSE (IF obs = ref THEN <<>> ELSE << K(c, "fields") >>))
    \o
    (IF \A i \in 1..Len(obsn) : PropsOk(obsn[i]) THEN <<>> ELSE << K(c, "read-write-sets") >>)

RECURSIVE Report(_, _, _)
Report(e, bad, i) ==
  IF i > Len(bad) THEN TRUE
  ELSE PrintT("VERDICT " \o ToJson([id |-> e.id, key |-> bad[i], text |-> e.case.text])) /\ Report(e, bad, i + 1)

Init == l = 1
Next == /\ l <= Len(Rec)
        /\ Report(Rec[l], Judge(Rec[l]), 1)
        /\ l' = l + 1
Spec == Init /\ [][Next]_vars
Accepted == IF TLCGet("stats").diameter = Len(Rec) + 1 THEN TRUE
            ELSE PrintT("TRACE-NOT-CONSUMED") /\ FALSE
=============================================================================
