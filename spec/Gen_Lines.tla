----------------------------- MODULE Gen_Lines -----------------------------
(* spec -> impl generator for line accounting and containment (C07): files   *)
(* of NL lines, one statement per line, with at most one malformed line of   *)
(* every fault kind at every position, every line ending (LF, CR LF, last    *)
(* line without newline).  Each case also carries the same file with the     *)
(* malformed line deleted (the containment twin).                            *)
EXTENDS Integers, Sequences, TLC, Json
CONSTANT NL
VARIABLES phase, goods, bad, badpos, ending
vars == <<phase, goods, bad, badpos, ending>>

Good == << "addi a0, a0, 1", "L1:", ".word 7", "# only a comment", "", "beq a0, t1, L1",
           "sw a0, 4(sp) # tail comment", "ecall", "mv t1, a0", "lw a0, 4", "sw a0, 8", "jalr a0, 0", "jalr a0",
           ".word 1 2", "la t0, L1", ".asciz \"hi\"", ".asciz \"a b\"# c" >>
\* name, text
Bad == <<
  [n |-> "missing-last-operand",  t |-> "addi a0, a0"],
  [n |-> "missing-operand",       t |-> "li a0"],
  [n |-> "bad-operand",           t |-> "addi a0, 5, a1"],
  [n |-> "unknown-mnemonic",      t |-> "frobnicate a0, a1"],
  [n |-> "stray-semicolon-after", t |-> "addi a0, a0, 1 ; x"],
  [n |-> "stray-at-sign",         t |-> "@ nonsense"],
  [n |-> "stray-char-at-end-of-line", t |-> "addi a0, a0, 1 ;"],
  [n |-> "stray-char-alone",      t |-> "@"],
  [n |-> "plus-at-end-of-line",   t |-> "li a0, 5 +"],
  [n |-> "plus-sign",             t |-> "li a0, 5 + 3"],
  [n |-> "unterminated-char",     t |-> "li a0, 'ab"],
  [n |-> "unterminated-string",   t |-> ".ascii \"abc"],
  [n |-> "unknown-directive",     t |-> ".unknowndir 5"],
  [n |-> "stray-paren",           t |-> "(a0)"],
  [n |-> "colon-alone",           t |-> ": x"],
  [n |-> "missing-include",       t |-> ".include \"nofile.s\""],
  [n |-> "missing-include-then-comment", t |-> ".include \"nofile.s\" # gone"],
  [n |-> "string-operand",        t |-> "li a0, \"x\""],
  [n |-> "string-alone",          t |-> "\"x\""],
  [n |-> "none",                  t |-> "mv t2, a0"] >>
Endings == {"lf", "crlf", "lf-nofinal"}

EOL(e) == IF e = "crlf" THEN "\r\n" ELSE "\n"
RECURSIVE Join(_, _, _)
Join(ls, i, e) ==
  IF i > Len(ls) THEN ""
  ELSE ls[i] \o (IF i = Len(ls) /\ e = "lf-nofinal" THEN "" ELSE EOL(e)) \o Join(ls, i + 1, e)

Lines(gs, b, p) == [i \in 1..NL |-> IF i = p THEN Bad[b].t ELSE Good[gs[IF i < p THEN i ELSE i - 1]]]
Without(ls, p) == [i \in 1..(Len(ls) - 1) |-> IF i < p THEN ls[i] ELSE ls[i + 1]]

Init == phase = "start" /\ goods = <<>> /\ bad = 1 /\ badpos = 1 /\ ending = "lf"
PickGoods == /\ phase = "start"
             /\ \E gs \in [1..(NL - 1) -> 1..Len(Good)] : goods' = gs
             /\ phase' = "goods" /\ UNCHANGED <<bad, badpos, ending>>
PickBad == /\ phase = "goods"
           /\ \E b \in 1..Len(Bad), p \in 1..NL : bad' = b /\ badpos' = p
           /\ phase' = "bad" /\ UNCHANGED <<goods, ending>>
Emit == /\ phase = "bad"
        /\ \E e \in Endings :
             /\ ending' = e
             /\ LET ls == Lines(goods, bad, badpos) IN
                PrintT("CASE " \o ToJson([text |-> Join(ls, 1, e), twin |-> Join(Without(ls, badpos), 1, e),
                                          badline |-> badpos - 1, fault |-> Bad[bad].n, ending |-> e, nl |-> NL]))
        /\ phase' = "done" /\ UNCHANGED <<goods, bad, badpos>>
Next == PickGoods \/ PickBad \/ Emit
Spec == Init /\ [][Next]_vars
=============================================================================
