CONSTANTS MaxLen = 3
          NSym = 26
INIT Init
NEXT Next
CHECK_DEADLOCK FALSE
