CONSTANTS MinN = 3
          MaxN = 7
INIT Init
NEXT Next
CHECK_DEADLOCK FALSE
