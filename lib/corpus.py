"""Programs recorded from the repository itself and hand-written realistic programs
(used as impl -> spec trace inputs by several checks)."""
import glob, os

REPO = os.environ.get("VERIF_REPO") or os.environ.get("VP_RUN_REPO") or "/repo"

CONFORMING = """\
.data
msg: .word 1, 2, 3
.text
main:
    li a0, 5
    call fact
    mv a1, a0
    li a0, 1
    li a7, 1
    ecall
    li a7, 10
    ecall

fact:
    addi sp, sp, -8
    sw ra, 0(sp)
    sw s0, 4(sp)
    mv s0, a0
    li t0, 1
    ble a0, t0, base
    addi a0, a0, -1
    call fact
    mul a0, a0, s0
    j done
base:
    li a0, 1
done:
    lw s0, 4(sp)
    lw ra, 0(sp)
    addi sp, sp, 8
    ret
"""

VIOLATING = """\
main:
    li t0, 7
    call f
    add a0, a0, t0
    li a7, 10
    ecall
f:
    li s1, 3
    addi zero, zero, 1
    lw t1, 4(sp)
    li a0, 1
    ret
dead:
    li a2, 2
"""

LOOPS = """\
main:
    li a0, 0
    li a1, 10
loop:
    bge a0, a1, end
    addi a0, a0, 1
    j loop
end:
    li a7, 10
    ecall
"""


def repo_programs():
    out = {}
    pats = ["riscv_analysis_cli/tests/**/*.s", "riscv_analysis_cli/resources/test/**/*.s"]
    for p in pats:
        for f in sorted(glob.glob(os.path.join(REPO, p), recursive=True)):
            try:
                out[os.path.relpath(f, REPO)] = open(f).read()
            except OSError:
                pass
    return out


def all_programs():
    d = dict(repo_programs())
    d["corpus/conforming"] = CONFORMING
    d["corpus/violating"] = VIOLATING
    d["corpus/loops"] = LOOPS
    return d

# hand-written programs aimed at individual rules of the value analysis (C01)
VALUE_PROGRAMS = [
    # a loop whose head is the function's own label, moving sp and a saved register in the loop
    "main:\n    li a0, 2\n    call f\n    li a7, 10\n    ecall\nf:\n    addi sp, sp, -4\n    addi a0, a0, -1\n    bnez a0, f\n    addi sp, sp, 4\n    ret\n",
    "main:\n    li a0, 2\n    call f\n    li a7, 10\n    ecall\nf:\n    addi s0, s0, 1\n    addi a0, a0, -1\n    bnez a0, f\n    addi s0, s0, -1\n    ret\n",
    # a conditional branch back to the function's own entry with a temporary live on the fall-through path
    "main:\n    li a0, 3\n    call countdown\n    li a7, 1\n    ecall\n    li a7, 10\n    ecall\ncountdown:\n    addi a0, a0, -1\n    li a3, 100\n    bnez a0, countdown\n    add a0, a0, a3\n    ret\n",

    "main:\n    addi sp, sp, -8\n    sw a0, 0(sp)\n    li a0, 10\n    lw a7, 0(sp)\n    addi sp, sp, 8\n    li a7, 10\n    ecall\n",
    "main:\n    li a0, 7\n    li a7, 5\n    ecall\n    mv a1, a0\n    li a7, 10\n    ecall\n",
    "main:\n    li t0, 5\n    sub t1, t0, sp\n    div t2, zero, zero\n    divu t3, zero, zero\n    rem t4, zero, zero\n    li a7, 10\n    ecall\n",
    "main:\n    addi sp, sp, -16\n    sw s0, 0(sp)\n    sb t0, 0(sp)\n    lw s0, 0(sp)\n    addi sp, sp, 16\n    li a7, 10\n    ecall\n",
    "main:\n    addi sp, sp, -16\n    li t0, 3\n    sw t0, 4(sp)\n    lb t1, 4(sp)\n    lw t2, 4(sp)\n    addi sp, sp, 16\n    li a7, 10\n    ecall\n",
    "main:\n    li t0, 1\n    beqz a0, other\n    li t0, 2\n    j join\nother:\n    li t0, 1\njoin:\n    mv a0, t0\n    li a7, 10\n    ecall\n",
    "main:\n    li s0, 4\nloop:\n    addi s0, s0, -1\n    bnez s0, loop\n    mv a0, s0\n    li a7, 10\n    ecall\n",
    "main:\n    addi sp, sp, -8\n    sw ra, 4(sp)\n    li a0, 3\n    call twice\n    lw ra, 4(sp)\n    addi sp, sp, 8\n    li a7, 10\n    ecall\ntwice:\n    addi sp, sp, -8\n    sw s1, 0(sp)\n    mv s1, a0\n    add a0, s1, s1\n    lw s1, 0(sp)\n    addi sp, sp, 8\n    ret\n",
    "main:\n    la t0, handler\n    csrrw zero, 5, t0\n    li a7, 10\n    ecall\nhandler:\n    csrrw t0, 64, t0\n    addi t0, t0, 1\n    csrrw t0, 64, t0\n    uret\n",
    "main:\n    lui t0, 0x80000\n    addi t0, t0, -1\n    slli t1, t0, 1\n    srai t2, t1, 31\n    mulh t3, t0, t0\n    li a7, 10\n    ecall\n",
    # ecall numbers computed from a0/a1 that survive earlier ecalls without results (chains of 3 and 4)
    "main:\n    li a0, 5\n    li a7, 1\n    ecall\n    addi a7, a0, -4\n    ecall\n    addi a7, a0, 5\n    ecall\n    addi t0, t0, 1\n",
    "main:\n    li a0, 5\n    li a1, 30\n    li a7, 1\n    ecall\n    addi a7, a0, -1\n    ecall\n    addi a7, a1, 2\n    ecall\n    sub a7, a1, a0\n    addi a7, a7, 68\n    ecall\n    li t1, 1\n",
    # tail calls (j to a function label) in all source orders of caller / callee / callee's callee; arguments passed through
    "main:\n    li a0, 1\n    li a1, 2\n    jal h\n    li a1, 3\n    jal g\n    li a7, 1\n    ecall\n    li a7, 10\n    ecall\nk:\n    add a0, a0, a1\n    ret\ng:\n    addi sp, sp, -4\n    sw ra, 0(sp)\n    jal k\n    lw ra, 0(sp)\n    addi sp, sp, 4\n    ret\nh:\n    addi a0, a0, 1\n    j g\n",
    "main:\n    li a0, 1\n    li a1, 2\n    li a2, 4\n    jal h\n    li a7, 1\n    ecall\n    li a7, 10\n    ecall\nh:\n    addi a0, a0, 1\n    beqz a0, g\n    j k\ng:\n    add a0, a0, a2\n    j k\nk:\n    add a0, a0, a1\n    ret\n",
    "main:\n    li a0, 1\n    li a1, 2\n    li a2, 4\n    jal k\n    jal g\n    jal h\n    li a7, 10\n    ecall\nk:\n    add a0, a0, a1\n    ret\nh:\n    addi a0, a0, 1\n    j g\ng:\n    add a0, a0, a2\n    j k\n",
]

# loops, irreducible flow, recursion, many call sites (C12 / C06)
# a short main followed by a table of one-instruction dead loops (every dead loop is promoted to a root on its own:
# the worst case for the number of sweeps, see PassLoop.tla)
def trap_table(n, body=1):
    return ("main:\n    li a0, 1\n    li a7, 1\n    ecall\n    li a7, 10\n    ecall\n"
            + "".join(f"trap_{i}:\n" + "    addi t0, t0, 1\n" * (body - 1) + f"    j trap_{i}\n" for i in range(n)))


TRAP_TABLES = [trap_table(3), trap_table(8), trap_table(16), trap_table(8, 2),
               # a chain: each dead loop also jumps into the one before it
               "main:\n    li a7, 10\n    ecall\n" + "".join(f"d{i}:\n    beqz t0, d{i}\n    j d{max(i - 1, 0)}\n" for i in range(6))]

LOOP_PROGRAMS = TRAP_TABLES + [
    # dead code that jumps to a live label (C12: a second value analysis used to change the result)
    "main:\nK1:\nK2:\n    ret\nL1:\n    j K2\n    ecall\n    li t0, 1\n    li a7, 10\n    ecall\nL2:\n    j L1\n    ret\n",
    "main:\n    li a0, 1\nK:\n    addi a0, a0, 1\n    li a7, 10\n    ecall\nD1:\n    li a0, 5\n    j K\nD2:\n    j D1\n",
    open("/verif/notes/hang-available-values.s").read() if __import__("os").path.exists("/verif/notes/hang-available-values.s") else "",
    open("/verif/notes/hang-liveness-shared-return.s").read() if __import__("os").path.exists("/verif/notes/hang-liveness-shared-return.s") else "",
    "main:\n    li t0, 0\n    li t1, 10\nouter:\n    li t2, 0\ninner:\n    addi t2, t2, 1\n    blt t2, t1, inner\n    addi t0, t0, 1\n    blt t0, t1, outer\n    li a7, 10\n    ecall\n",
    "main:\n    beqz a0, second\nfirst:\n    addi a0, a0, -1\n    j check\nsecond:\n    addi a0, a0, 1\ncheck:\n    bgtz a0, first\n    bltz a0, second\n    li a7, 10\n    ecall\n",
    "main:\n    j body\nhead:\n    addi s0, s0, 1\nbody:\n    li t0, 5\n    blt s0, t0, head\n    li a7, 10\n    ecall\n",
    "main:\n    li a0, 4\n    call f\n    call f\n    call g\n    call f\n    li a7, 10\n    ecall\nf:\n    addi sp, sp, -4\n    sw ra, 0(sp)\n    call g\n    lw ra, 0(sp)\n    addi sp, sp, 4\n    ret\ng:\n    addi a0, a0, 1\n    ret\n",
]
LOOP_PROGRAMS = [p for p in LOOP_PROGRAMS if p]

# programs whose output is sensitive to hash iteration order (C10)
ORDER_PROGRAMS = [
    open("/verif/notes/hang-liveness-shared-return.s").read() if __import__("os").path.exists("/verif/notes/hang-liveness-shared-return.s") else "",
    "main:\n    call fa\n    call fb\n    li a7, 10\n    ecall\nfa:\n    addi a0, a0, 1\nfb:\nfb2:\n    li s1, 1\n    li s2, 2\n    addi a0, a0, 2\n    ret\n",
    "main:\n    mv t0, a0\n    beqz t0, K\n    call F\n    sw t0, -4(sp)\nK:\n    sw t0, 0(sp)\n    li a7, 10\n    ecall\nF:\n    li a0, 1\n    ret\n",
    "main:\n    j A\nX:\n    j Y\nA:\n    j X\nY:\n    j Zz\nundefined_use:\n    j nowhere1\n    j nowhere2\nZz:\n    ret\n",
    "main:\n    call f\n    li a7, 10\n    ecall\nf:\n    beqz a0, r2\n    li a0, 1\n    ret\nr2:\n    li a0, 2\n    mv a1, t3\n    ret\n",
    # diagnostics whose related information names a function that has several entry labels
    "main:\n    li t0, 1\n    jal fb\n    add a0, t0, a0\n    j fb2\nfb:\nfb2:\nfb3:\nfb4:\n    li t0, 2\n    ret\n",
    "main:\n    li t1, 1\n    jal zz\n    jal aa\n    add a0, t1, a0\n    li a7, 10\n    ecall\nzz:\naa:\nmm:\nbb:\nyy:\n    li t1, 2\n    ret\n",
    # unreachable regions in which the facts flipped between two states for ever before the roots were pinned
    # (found by PassLoop.tla at N = 4; these are realisations of its counterexample)
    "main:\n    j end\nn1:\n    j n3\nn2:\n    j n1\nn3:\n    beq a0, a1, n2\nn4:\n    li t0, 5\n    beq a2, a3, n1\n    j n2\nend:\n    li a7, 10\n    ecall\n",
    "main:\n    j end\nB1:\n    j B2\nB2:\n    beq a0, a1, B5\nB3:\n    li t0, 5\nB4:\n    j B2\nB5:\n    beq a0, a1, B4\nend:\n    li a7, 10\n    ecall\n",
    "main:\n    li a7, 10\n    ecall\nB1:\n    beq a0, a1, B5\nB2:\n    li t0, 5\nB3:\n    j B1\nB4:\n    beq a0, a1, B1\nB5:\n    beq a0, a1, B3\n",
    # unreachable regions on which the u_def sets of the liveness pass grew and shrank in turns for ever (the scheme
    # without a wait rule, PassLoop_Udef_old.cfg; a link jump is a node that writes a register and has two successors)
    "main:\n    j end\nB1:\n    j B2\nB2:\n    j B3\nB3:\n    beq a0, a1, B1\nB4:\n    jal t1, B2\nend:\n    li a7, 10\n    ecall\n",
    "main:\n    j end\nB1:\n    j B2\nB2:\n    beq a0, a1, B3\nB3:\n    beq a0, a1, B1\nB4:\n    jal t1, B3\nend:\n    li a7, 10\n    ecall\n",
    "main:\n    li a7, 10\n    ecall\nB1:\n    j B2\nB2:\n    j B3\nB3:\n    beq a0, a1, B1\nB4:\n    jal t1, B2\n    li a7, 10\n    ecall\n",
]
ORDER_PROGRAMS = [p for p in ORDER_PROGRAMS if p]

# exit ecalls that are only recognisable after another exit has been cut, several exit numbers, a7 set far from the ecall
EXIT_PROGRAMS = [
    # an exit inside a function that is recognisable only after an earlier exit has been cut, another function behind it
    "main:\n    jal f\n    jal g\n    li a7, 10\n    ecall\nf:\n    li a7, 10\n    beq a0, zero, join\n    li a7, 93\n    ecall\njoin:\n    ecall\ng:\n    ret\n",
    "main:\n    jal f\n    jal g\n    li a7, 10\n    ecall\nf:\n    bnez a1, go\n    ret\ngo:\n    li a7, 10\n    beqz a0, second\n    li a7, 93\n    ecall\nsecond:\n    ecall\ng:\n    addi a0, a0, 1\n    ret\n",
    # exits that are recognisable only after the edge behind an earlier exit has been cut (two and three rounds)
    "main:\n    beqz a0, L\n    li a7, 10\n    ecall\nE2:\n    ecall\n    addi t0, t0, 1\n    li a7, 10\n    ecall\nL:\n    li a7, 93\n    j E2\n",
    "main:\n    beqz a0, L1\n    bnez a1, L2\n    li a7, 10\n    ecall\nE2:\n    ecall\nE3:\n    ecall\n    addi t0, t0, 1\n    li a7, 10\n    ecall\nL1:\n    li a7, 93\n    j E2\nL2:\n    li a7, 93\n    j E3\n",

    "main:\n    li a7, 10\n    beqz a0, quit\n    li a7, 93\n    ecall\nquit:\n    ecall\ncheck:\n    li a0, 0\n    ret\n",
    "main:\n    li a7, 93\n    bnez a0, second\n    ecall\nsecond:\n    li a0, 1\n    ecall\n    addi a0, a0, 1\n",
    "main:\n    li a7, 10\n    li a0, 3\nspin:\n    addi a0, a0, -1\n    bnez a0, spin\n    ecall\nafter:\n    li t0, 1\n    j after\n",
    "main:\n    li a7, 1\n    li a0, 5\n    ecall\n    li a7, 10\n    beqz a0, out\n    li a7, 10\nout:\n    ecall\ntail:\n    nop\n",
]


def exit_chain(k):
    """k exit ecalls in a row; the i-th is recognisable only after the edge behind the (i-1)-th has been cut"""
    regs = ["a0", "a1", "a2", "a3", "a4", "a5", "a6"]
    s = "main:\n" + "".join("    beqz %s, L%d\n" % (regs[i], i + 1) for i in range(k - 1))
    s += "    li a7, 10\n    ecall\n" + "".join("E%d:\n    ecall\n" % (i + 2) for i in range(k - 1))
    s += "    addi t0, t0, 1\n    li a7, 10\n    ecall\n"
    # alternating numbers: what reaches E(i+1) from Ei differs from what reaches it from Li until the edge behind Ei is cut
    s += "".join("L%d:\n    li a7, %d\n    j E%d\n" % (i + 1, 93 if i % 2 == 0 else 10, i + 2) for i in range(k - 1))
    return s


# an exit that is reachable only through another exit, next to a chain (the exit status of 'quit' goes away once 'fail' is cut)
EXIT_PROGRAMS += [
    "main:\n    beq a1, zero, part2\nfail:\n    li a0, 1\n    li a7, 93\n    ecall\nquit:\n    ecall\npart2:\n    li a7, 93\n    beq a2, zero, third\n    li a7, 10\n    beq a0, zero, second\n    li a7, 93\n    ecall\nsecond:\n    ecall\nthird:\n    ecall\n    li a0, 1\n    li a7, 1\n    ecall\n",
    "main:\n    bnez a1, part2\n    li a7, 10\n    ecall\nq2:\n    ecall\nq3:\n    ecall\npart2:\n" + exit_chain(4).replace("main:\n", ""),
]
EXIT_PROGRAMS += [exit_chain(k) for k in (4, 5, 7)]
# a function with an error exit; behind the exit, code that ends in a return nobody calls / in the next function
EXIT_PROGRAMS += [
    "main:\n    jal f\n    li a7, 10\n    ecall\nf:\n    bnez a1, go\n    ret\ngo:\n    li a7, 93\n    ecall\nafter:\n    addi a0, a0, 1\n    addi a0, a0, 2\n    ret\n",
    "main:\n    jal f\n    jal g\n    li a7, 10\n    ecall\nf:\n    bnez a1, go\n    ret\ngo:\n    li a7, 93\n    ecall\ng:\n    addi a0, a0, 1\n    beqz a0, g2\n    ret\ng2:\n    addi a0, a0, 2\n    ret\n",
]
# the same chain inside a called function, another function behind it
EXIT_PROGRAMS += ["start:\n    jal main\n    jal g\n    li a7, 10\n    ecall\n" + exit_chain(k).replace("main:\n", "main:\n    bnez a6, R\n") + "R:\n    ret\n" + "g:\n    addi a0, a0, 1\n    ret\n" for k in (3, 5)]

# merges with different stack pointers, frame pointers, stores through an sp of unknown offset, sub-word neighbours
STACK_PROGRAMS = [
    # inside a function (saved registers have a known entry value there)
    "main:\n    li s0, 1234\n    li a0, 0\n    li a1, 5\n    call f\n    li a7, 10\n    ecall\nf:\n    addi sp, sp, -16\n    sw s0, 0(sp)\n    sw s1, 4(sp)\n    addi s1, sp, 0\n    beqz a0, skip\n    addi sp, sp, -16\nskip:\n    sw a1, 0(sp)\n    addi sp, s1, 0\n    lw s0, 0(sp)\n    lw s1, 4(sp)\n    addi sp, sp, 16\n    ret\n",
    "main:\n    li a0, 1\n    li a1, 5\n    call f\n    li a7, 10\n    ecall\nf:\n    addi sp, sp, -16\n    sw s0, 0(sp)\n    sw s1, 4(sp)\n    addi s1, sp, 0\n    bnez a0, deeper\n    j join\ndeeper:\n    addi sp, sp, -16\njoin:\n    sw a1, 16(sp)\n    mv sp, s1\n    lw s0, 0(sp)\n    lw s1, 4(sp)\n    addi sp, sp, 16\n    ret\n",
    "main:\n    li a0, 3\n    call f\n    li a7, 10\n    ecall\nf:\n    addi sp, sp, -16\n    sw s0, 8(sp)\n    li t0, 255\n    sb t0, 7(sp)\n    sh t0, 4(sp)\n    sb t0, 11(sp)\n    lw s0, 8(sp)\n    addi sp, sp, 16\n    ret\n",
    "main:\n    addi sp, sp, -16\n    sw zero, 0(sp)\n    lw t0, 0(sp)\n    li t0, 7\n    addi t1, t0, 1\n    mv a0, t1\n    addi sp, sp, 16\n    li a7, 10\n    ecall\n",
    "main:\n    li a0, 3\n    call f\n    li a7, 10\n    ecall\nf:\n    addi sp, sp, -16\n    sw s0, 8(sp)\n    sb a0, 8(sp)\n    lw s0, 8(sp)\n    addi sp, sp, 16\n    ret\n",
    "main:\n    li a0, 3\n    call f\n    li a7, 10\n    ecall\nf:\n    addi sp, sp, -16\n    sw ra, 12(sp)\n    sw s0, 8(sp)\n    mv s0, a0\n    sw a0, -4(sp)\n    call g\n    lw t0, -4(sp)\n    add a0, s0, t0\n    lw s0, 8(sp)\n    lw ra, 12(sp)\n    addi sp, sp, 16\n    ret\ng:\n    li t1, 77\n    sw t1, -4(sp)\n    li a0, 1\n    ret\n",
]

# programs whose order-sensitive choices straddle a file boundary once cut into an include (C10)
MULTIFILE_ORDER = [
    "main:\n    beqz a0, other\n    add a1, t0, t0\n    li a7, 10\n    ecall\nother:\n    add a2, t0, t0\n    li a7, 10\n    ecall\n",
    "main:\n    call fa\n    call fb\n    li a7, 10\n    ecall\nfa:\n    beqz a0, shared\n    li s1, 1\n    ret\nfb:\n    li s2, 2\nshared:\n    li s3, 3\n    ret\n",
]

# control/status registers and memory addressed through them
CSR_PROGRAMS = [
    "main:\n    csrr t0, 5\n    li t1, 5\n    add a0, t0, t1\n    li a7, 10\n    ecall\n",
    "main:\n    la t0, handler\n    csrrw zero, 5, t0\n    csrrwi zero, 64, 3\n    csrr t1, 64\n    li a7, 10\n    ecall\nhandler:\n    csrrw t0, 64, t0\n    sw t1, 0(t0)\n    lw t1, 0(t0)\n    csrrw t0, 64, t0\n    uret\n",
    # a slot addressed through a CSR value, written on two paths, read behind an exit ecall that is cut later
    "main:\n    csrrw t0, 64, zero\n    li t1, 7\n    sw t1, 0(t0)\n    bnez a0, work\n    li t3, 9\n    sw t3, 0(t0)\n    li a7, 10\n    ecall\nwork:\n    lw t2, 0(t0)\n    mv a0, t2\n    li a7, 1\n    ecall\n    li a7, 10\n    ecall\n",
]

# shapes on which two lints, or two nodes from one token, find the same problem (C10: reported once)
DUP_PROGRAMS = [
    "main:\n    lw x0, lab\n    li a7, 10\n    ecall\n.data\nlab: .word 1\n",
    "main:\n    lw zero, lab\n    sw t0, lab, t1\n    lb x0, lab\n    li a7, 10\n    ecall\n.data\nlab: .word 1\n",
    "f:\n    mv a0, s1\n    ret\nmain:\n    call f\n    li a7, 10\n    ecall\n",
    "f:\n    add a0, s1, t0\n    ret\nmain:\n    li t0, 1\n    call f\n    li a7, 10\n    ecall\n",
    "main:\n    jal t1, K2\nK1:\n    j L1\n    j L1\n    jal ra, L2\nL1:\n    jr ra\nL2:\n    la t2, L2\n    csrrw zero, 5, t2\nK2:\n    beq t0, t1, K1\n",
    # a load with a label inside .data: two nodes from one token, both in the wrong segment
    ".data\nx: .word 1\n    lw t0, x\n    sw t0, x, t1\n.text\nmain:\n    li a7, 10\n    ecall\n",
]

# several files that hold code at the same line/column/offset (anything keyed on a range alone confuses them)
TWIN_FILES = [
    # the same rejected line at the same position of the base file and of an included file
    {"main.s": ".globl main\n.include \"u.s\"\nmain:\n    li a7, 10\n    ecall\n", "u.s": ".globl util\n    li a6, 1\n"},
    {"main.s": "addi a0, a0\n.include \"u.s\"\n    li a7, 10\n    ecall\n", "u.s": "addi a0, a0\n"},
    {"main.s": "main:\n    li a0, 1\n    call pick\n    li a7, 10\n    ecall\npick:\n    beqz a0, other\n.include \"a.s\"\nother:\n.include \"b.s\"\n",
     "a.s": "    li a0, 1\n    ret\n", "b.s": "    li a0, 2\n    ret\n"},
    {"main.s": "main:\n    beqz a0, other\n.include \"a.s\"\nother:\n.include \"b.s\"\n",
     "a.s": "    add a1, t0, t0\n    li a7, 10\n    ecall\n", "b.s": "    add a2, t0, t0\n    li a7, 10\n    ecall\n"},
    {"main.s": "main:\n    call fa\n    call fb\n    li a7, 10\n    ecall\n.include \"a.s\"\n.include \"b.s\"\n",
     "a.s": "fa:\n    li s1, 1\n    ret\n", "b.s": "fb:\n    li s2, 2\n    ret\n"},
    {"main.s": "main:\n    li a0, 3\n    call f\n    li a7, 10\n    ecall\nf:\n    addi sp, sp, -16\n    beqz a0, z\n.include \"a.s\"\nz:\n.include \"b.s\"\n",
     "a.s": "    li t0, 1\n    addi sp, sp, 16\n    ret\n", "b.s": "    li t0, 2\n    addi sp, sp, 12\n    ret\n"},
    # undefined labels used in the base file (further down) and in an included file (further up): one error, at the first use in program order
    {"main.s": "main:\n    li a0, 1\n    beqz a0, undefined_a\n    li a7, 10\n    ecall\n.include \"lib.s\"\n", "lib.s": "other:\n    beqz a0, undefined_b\n    ret\n"},
    {"main.s": ".include \"lib.s\"\nmain:\n    j zzz_nowhere\n", "lib.s": "\n\n\n\nother:\n    la t0, aaa_nowhere\n    jal bbb_nowhere\n"},
]

# functions sharing code: shared tails, several returns, interleaved layouts (C11, C10, C12)
SHARED_PROGRAMS = [
    # a function that runs into the tails of two other functions (each tail's return is already somebody's exit)
    "main:\n    call f1\n    call f2\n    call f3\n    li a7, 10\n    ecall\nf1:\n    addi a0, a0, 1\ntail1:\n    li a0, 1\n    ret\nf2:\n    addi a0, a0, 2\ntail2:\n    li a0, 2\n    ret\nf3:\n    beqz a0, tail1\n    j tail2\n",
    "main:\n    call f3\n    call f2\n    call f1\n    li a7, 10\n    ecall\nf3:\n    beqz a0, tail1\n    bnez a1, tail2\n    li a0, 3\n    ret\nf1:\n    addi a0, a0, 1\ntail1:\n    li a0, 1\n    ret\nf2:\n    addi a0, a0, 2\ntail2:\n    li a0, 2\n    ret\n",
    # interleaved bodies sharing a block that does not return: the exits are in the opposite order of the entries
    "main:\n    call f\n    call g\n    li a7, 10\n    ecall\nf:\n    beqz a0, fail\n    j f_end\ng:\n    beqz a0, fail\n    li a0, 2\n    ret\nf_end:\n    li a0, 1\n    ret\nfail:\n    li a7, 93\n    ecall\n",
    "main:\n    call fn_a\n    call fn_b\n    li a7, 10\n    ecall\nfn_a:\n    addi a0, a0, 1\n    j tail\nfn_b:\n    beqz a0, tail\n    li a0, 2\n    ret\ntail:\n    addi a0, a0, 3\n    ret\n",
    "main:\n    call fn_a\n    call fn_b\n    li a7, 10\n    ecall\nfn_b:\n    beqz a0, tail\n    li a0, 2\n    ret\nfn_a:\n    addi a0, a0, 1\ntail:\n    addi a0, a0, 3\n    ret\n",
    "main:\n    call f\n    li a7, 10\n    ecall\nf:\n    beqz a0, f_zero\n    bltz a0, f_neg\n    li a0, 1\n    ret\nf_zero:\n    li a0, 0\n    ret\nf_neg:\n    li a0, -1\n    ret\n",
    "main:\n    call f\n    call g\n    li a7, 10\n    ecall\nf:\n    bnez a0, f_other\n    li a0, 5\n    ret\nf_other:\n    li a0, 6\n    ret\ng:\n    beqz a0, f_other\n    li a0, 7\n    ret\n",
    "main:\n    call a\n    call b\n    call c\n    li a7, 10\n    ecall\na:\n    li a0, 1\n    j ab\nb:\n    li a0, 2\nab:\n    addi a0, a0, 1\n    beqz a0, abc\n    ret\nc:\n    li a0, 3\nabc:\n    addi a0, a0, 2\n    ret\n",
    # directives between a label and its first instruction; data labels next to code labels
    "main:\n    jal f\n    jal g\n    li a7, 10\n    ecall\nf:\n    .align 2\n    addi a0, a0, 1\n    ret\n.data\nbuf: .word 1\n.text\ng:\n    addi a0, a0, 2\n    ret\n",
    "main:\n    la t0, handler\n    csrrw zero, 5, t0\n    jal f\n    li a7, 10\n    ecall\nhandler:\n    .align 4\n    csrrw t0, 64, t0\n    csrrw t0, 64, t0\n    uret\n.data\nmsg: .asciz \"hi\"\n.text\nf:\n.align 2\n    li a0, 1\n    ret\n",
    "main:\n    jal f\n    li a7, 10\n    ecall\n.data\nd1: .word 1\nd2: .space 8\n.text\n.align 2\nf:\n.align 2\nf2:\n    beqz a0, f2\n    ret\n",
]

# a function whose label is in one file and whose first instruction is in another, with a diagnostic at its entry
ENTRY_SPLIT_FILES = [
    {"main.s": "main:\n    jal helper\n    j helper\n    li a7, 10\n    ecall\nhelper:\n.include \"body.s\"\n", "body.s": "    addi a0, a0, 1\n    ret\n"},
    {"main.s": "main:\n    jal spin\n    li a7, 10\n    ecall\nspin:\n.include \"body.s\"\n", "body.s": "again:\n    addi t0, t0, 1\n    j again\n"},
    {"main.s": "first:\n.include \"body.s\"\nmain:\n    jal first\n    li a7, 10\n    ecall\n", "body.s": "\n\n    addi a0, a0, 1\n    ret\n"},
    {"main.s": "main:\n    jal f\n    li a7, 10\n    ecall\n.include \"lab.s\"\n    addi a0, a0, 1\n    beqz a0, f\n    ret\n", "lab.s": "# the label only\n\nf:\n"},
]
TWIN_FILES += ENTRY_SPLIT_FILES
