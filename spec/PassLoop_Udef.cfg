SPECIFICATION Spec
CONSTANTS
  N = 3
  Facts = {p}
  MaxOut = 2
  Runs = 3
  FirstVisitCounts = FALSE
  WaitForVisited = FALSE
  UnvisitedIsTop = TRUE
  RootsAreEntries = FALSE
INVARIANTS FixedPoint Stable AllVisited
PROPERTY Terminates
CHECK_DEADLOCK FALSE
