CONSTANT N = 2
INIT Init
NEXT Next
CHECK_DEADLOCK FALSE
