SPECIFICATION Spec
CONSTANTS
  N = 3
  Facts = {p}
  MaxOut = 2
  Runs = 3
  FirstVisitCounts = TRUE
  WaitForVisited = FALSE
INVARIANTS SweepBound FixedPoint Stable AllVisited
PROPERTY Terminates
CHECK_DEADLOCK FALSE
