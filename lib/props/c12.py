"""C12 — analysis results are a stable fixed point of the pass pipeline."""
import os
from vlib import *
import corpus
import props.execcommon as ex

PID = "C12"


def run(tier, replay=None):
    out = Outcome(PID, tier)
    wd = os.path.join(WORK, PID)
    rvh = build_harness()
    hists, gres = tlc_generate("Gen_Hist", coverage=True)
    out.add_tlc(gres)
    hists = [h["hist"] for h in hists]
    if replay:
        texts = [json.load(open(replay))["witness"]["text"]]
    else:
        nval, nflow = (60, 120) if tier == "quick" else (1500, 3000)
        r1 = run_tlc("Gen_Values", cfg="Gen_Values_sim", simulate=nval, depth=30, workers=4, seed_=seed() * 5 + 1)
        r2 = run_tlc("Gen_Flow", cfg="Gen_Flow_sim", simulate=nflow, depth=40, workers=4, seed_=seed() * 7 + 2, heap="6g")
        out.add_tlc(r1)
        out.add_tlc(r2)
        texts = [c["text"] for c in r1.tagged("CASE")] + [c["text"] for c in r2.tagged("CASE") if c["shape"] == "forced"]
        bres = tlc_generate("Gen_Blocks", cfg="Gen_Blocks", heap="6g")
        out.add_tlc(bres[1])
        bl = [c["text"] for c in bres[0]]
        texts += bl if tier == "thorough" else [t for i, t in enumerate(bl) if i % 6 == seed() % 6]
        cres = run_tlc("Gen_Conform", cfg="Gen_Conform", simulate=(30 if tier == "quick" else 600), depth=10, workers=4, seed_=seed() * 59 + 4)
        texts += list(dict.fromkeys(c["text"] for c in cres.tagged("CASE"))) + corpus.SHARED_PROGRAMS
        texts += list(corpus.all_programs().values()) + corpus.VALUE_PROGRAMS + corpus.LOOP_PROGRAMS
        texts = list(dict.fromkeys(texts))
    hc = [{"id": i + 1, "mode": "stable", "text": t, "histories": hists, "digest": not replay} for i, t in enumerate(texts)]
    tp, evs = run_harness_par(rvh, hc, wd, "stable", timeout_ms=30000, shards=12)
    trace = []
    owner = []
    nruns = 0
    for i, e in enumerate(evs):
        if e["ev"] != "stable":
            out.notes.append(f"program {i + 1} not observable ({e['ev']}): C06's business")
            continue
        trace.append({"ev": "program", "id": len(trace) + 1})
        owner.append(i)
        for r in e["runs"]:
            if not r["ok"]:
                continue
            nruns += 1
            trace.append({"ev": "analysed", "id": len(trace) + 1, "parts": r["first"], "sweeps": r["sweeps"]})
            owner.append(i)
            for st in r["steps"]:
                trace.append({"ev": "extra", "id": len(trace) + 1, "pass": st["pass"], "ok": st["ok"],
                              "parts": st["parts"], "sweeps": st["sweeps"], "hist": r["hist"]})
                owner.append(i)
    v, ress = validate_chunks("Trace_Stable", trace, wd, "stable.chunk", chunk=20000, heap="8g")
    # chunks restart the state machine: a chunk boundary inside a program only loses a comparison, never adds one
    for r in ress:
        out.add_tlc(r)
    for x in v:
        x["text"] = texts[owner[x["id"] - 1]]
        x["event"] = {k: trace[x["id"] - 1].get(k) for k in ("ev", "pass", "hist")}
    out.add_verdicts(v)
    maxsw = {}
    for t in trace:
        for s in t.get("sweeps", []):
            maxsw[s["pass"]] = max(maxsw.get(s["pass"], 0), s["n"])
    out.cov["traces_validated_against_impl"] = len(trace)
    out.sample({"text": texts[0], "histories": hists[:4]})
    out.sample({"history": hists[-1]})
    out.assumptions += [
        "the harness sends a 64-bit keyed digest (with length) of each observable group instead of its text (equality is all the specification asks); a replay sends the text",
        "observables: node list, edges, value facts, live sets, u_def, function table / owners, lint diagnostics (canonical JSON per group)",
        "sweep bound 2*N + 3 per pass run (N = number of Cfg nodes); sweep counters come from the rva_verif hooks",
        "a chunk boundary of the validated trace may drop one comparison, never add one",
    ]
    return out.finish(extra_cov={
        "programs": len(texts), "histories": len(hists), "analyses": nruns, "trace_events": len(trace),
        "max_sweeps_seen": maxsw, "exhaustive": False,
        "evaluations": len(trace), "distinct_nontrivial": len(texts) * len(hists),
        "rule": "every history in {A,E,L}^(1..3) (39, exhaustive from Gen_Hist) x programs from Gen_Values / Gen_Flow (tlc -simulate) and the corpus incl. loops / irreducible flow / recursion; one fresh analysis of the same parsed program per history",
    })
