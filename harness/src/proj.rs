//! Projection of implementation state onto the abstract state of the TLA+
//! specification.  No analysis logic lives here: only field extraction and
//! re-indexing (node index = position in `cfg.nodes()`, 1-based; file index =
//! order of import, 1-based; registers as numbers 0..31; -1 = absent).
use crate::reader::MemReader;
use riscv_analysis::analysis::{AvailableValue, MemoryLocation};
use riscv_analysis::cfg::{AvailableValueMap, Cfg, CfgNode, RegisterSet, Segment};
use riscv_analysis::parser::{
    DirectiveType, InstructionProperties, ParseError, ParserNode, Range, Register, Token,
    TokenType,
};
use riscv_analysis::passes::{
    DiagnosticItem, DiagnosticLocation, DiagnosticManager, SeverityLevel,
};
use serde_json::{json, Map, Value};
use std::collections::HashMap;
use std::rc::Rc;
use uuid::Uuid;

pub fn reg(r: Register) -> i64 {
    r as u8 as i64
}

pub fn range_into(m: &mut Map<String, Value>, r: &Range) {
    m.insert("l0".into(), json!(r.start().zero_idx_line()));
    m.insert("c0".into(), json!(r.start().zero_idx_column()));
    m.insert("r0".into(), json!(r.start().raw_index()));
    m.insert("l1".into(), json!(r.end().zero_idx_line()));
    m.insert("c1".into(), json!(r.end().zero_idx_column()));
    m.insert("r1".into(), json!(r.end().raw_index()));
}

pub fn range_json(r: &Range) -> Value {
    let mut m = Map::new();
    range_into(&mut m, r);
    Value::Object(m)
}

pub fn text_cps(s: &str) -> Value {
    Value::Array(s.chars().map(|c| json!(c as u32)).collect())
}

pub fn level_str(l: &SeverityLevel) -> &'static str {
    match l {
        SeverityLevel::Error => "Error",
        SeverityLevel::Warning => "Warning",
        SeverityLevel::Information => "Info",
        SeverityLevel::Hint => "Hint",
    }
}

pub fn regset(s: RegisterSet) -> Value {
    Value::Array(s.iter().map(|r| json!(reg(r))).collect())
}

pub fn token_json(t: &Token, files: &dyn Fn(Uuid) -> i64) -> Value {
    let (k, s, ch) = match t.token_type() {
        TokenType::LParen => ("LParen", String::new(), -1),
        TokenType::RParen => ("RParen", String::new(), -1),
        TokenType::Newline => ("Newline", String::new(), -1),
        TokenType::Label(s) => ("Label", s.clone(), -1),
        TokenType::Symbol(s) => ("Symbol", s.clone(), -1),
        TokenType::Directive(s) => ("Directive", s.clone(), -1),
        TokenType::String(s) => ("String", s.clone(), -1),
        TokenType::Char(c) => ("Char", String::new(), *c as i64),
        TokenType::Comment(s) => ("Comment", s.clone(), -1),
    };
    let mut m = Map::new();
    m.insert("k".into(), json!(k));
    m.insert("s".into(), text_cps(&s));
    m.insert("ch".into(), json!(ch));
    m.insert("raw".into(), text_cps(&t.raw_text()));
    m.insert("file".into(), json!(files(t.file())));
    range_into(&mut m, &t.range());
    Value::Object(m)
}

fn kind_of(n: &ParserNode) -> &'static str {
    match n {
        ParserNode::ProgramEntry(_) => "ProgramEntry",
        ParserNode::FuncEntry(_) => "FuncEntry",
        ParserNode::Arith(_) => "Arith",
        ParserNode::IArith(_) => "IArith",
        ParserNode::Label(_) => "Label",
        ParserNode::JumpLink(_) => "JumpLink",
        ParserNode::JumpLinkR(_) => "JumpLinkR",
        ParserNode::Basic(_) => "Basic",
        ParserNode::Directive(_) => "Directive",
        ParserNode::Branch(_) => "Branch",
        ParserNode::Store(_) => "Store",
        ParserNode::Load(_) => "Load",
        ParserNode::LoadAddr(_) => "LoadAddr",
        ParserNode::Csr(_) => "Csr",
        ParserNode::CsrI(_) => "CsrI",
    }
}

/// One parser node -> flat record (every field always present).
pub fn node_json(n: &ParserNode, files: &dyn Fn(Uuid) -> i64) -> Value {
    let mut rd = -1;
    let mut rs1 = -1;
    let mut rs2 = -1;
    let mut imm: i64 = 0;
    let mut himm = false;
    let mut lab = String::new();
    let mut csr: i64 = -1;
    let mut dir = String::new();
    let mut vals: Vec<Value> = vec![];
    let mut sub: Vec<Value> = vec![]; // operand token ranges: [role, range]
    let mut add_sub = |role: &str, r: Range, f: Uuid| {
        let mut m = Map::new();
        m.insert("role".into(), json!(role));
        m.insert("file".into(), json!(files(f)));
        range_into(&mut m, &r);
        sub.push(Value::Object(m));
    };
    match n {
        ParserNode::Arith(x) => {
            rd = reg(*x.rd.get());
            rs1 = reg(*x.rs1.get());
            rs2 = reg(*x.rs2.get());
            add_sub("op", x.inst.range(), x.inst.file());
            add_sub("rd", x.rd.range(), x.rd.file());
            add_sub("rs1", x.rs1.range(), x.rs1.file());
            add_sub("rs2", x.rs2.range(), x.rs2.file());
        }
        ParserNode::IArith(x) => {
            rd = reg(*x.rd.get());
            rs1 = reg(*x.rs1.get());
            imm = x.imm.get().value() as i64;
            himm = true;
            add_sub("op", x.inst.range(), x.inst.file());
            add_sub("rd", x.rd.range(), x.rd.file());
            add_sub("rs1", x.rs1.range(), x.rs1.file());
            add_sub("imm", x.imm.range(), x.imm.file());
        }
        ParserNode::Label(x) => {
            lab = x.name.get().to_string();
            add_sub("lab", x.name.range(), x.name.file());
        }
        ParserNode::JumpLink(x) => {
            rd = reg(*x.rd.get());
            lab = x.name.get().to_string();
            add_sub("op", x.inst.range(), x.inst.file());
            add_sub("rd", x.rd.range(), x.rd.file());
            add_sub("lab", x.name.range(), x.name.file());
        }
        ParserNode::JumpLinkR(x) => {
            rd = reg(*x.rd.get());
            rs1 = reg(*x.rs1.get());
            imm = x.imm.get().value() as i64;
            himm = true;
            add_sub("op", x.inst.range(), x.inst.file());
            add_sub("rd", x.rd.range(), x.rd.file());
            add_sub("rs1", x.rs1.range(), x.rs1.file());
            add_sub("imm", x.imm.range(), x.imm.file());
        }
        ParserNode::Basic(x) => {
            add_sub("op", x.inst.range(), x.inst.file());
        }
        ParserNode::Directive(x) => {
            dir = x.dir_token.get().to_string();
            add_sub("op", x.dir_token.range(), x.dir_token.file());
            match &x.dir {
                DirectiveType::Include(p) => {
                    lab = p.get().clone();
                    add_sub("path", p.range(), p.file());
                }
                DirectiveType::Align(i) | DirectiveType::Space(i) => {
                    imm = i.get().value() as i64;
                    himm = true;
                    add_sub("imm", i.range(), i.file());
                }
                DirectiveType::Ascii { text, .. } => {
                    lab = text.get().clone();
                    add_sub("str", text.range(), text.file());
                }
                DirectiveType::Data(_, v) => {
                    for i in v {
                        vals.push(json!(i.get().value()));
                        add_sub("val", i.range(), i.file());
                    }
                }
                DirectiveType::DataSection | DirectiveType::TextSection => {}
            }
        }
        ParserNode::Branch(x) => {
            rs1 = reg(*x.rs1.get());
            rs2 = reg(*x.rs2.get());
            lab = x.name.get().to_string();
            add_sub("op", x.inst.range(), x.inst.file());
            add_sub("rs1", x.rs1.range(), x.rs1.file());
            add_sub("rs2", x.rs2.range(), x.rs2.file());
            add_sub("lab", x.name.range(), x.name.file());
        }
        ParserNode::Store(x) => {
            rs1 = reg(*x.rs1.get());
            rs2 = reg(*x.rs2.get());
            imm = x.imm.get().value() as i64;
            himm = true;
            add_sub("op", x.inst.range(), x.inst.file());
            add_sub("rs1", x.rs1.range(), x.rs1.file());
            add_sub("rs2", x.rs2.range(), x.rs2.file());
            add_sub("imm", x.imm.range(), x.imm.file());
        }
        ParserNode::Load(x) => {
            rd = reg(*x.rd.get());
            rs1 = reg(*x.rs1.get());
            imm = x.imm.get().value() as i64;
            himm = true;
            add_sub("op", x.inst.range(), x.inst.file());
            add_sub("rd", x.rd.range(), x.rd.file());
            add_sub("rs1", x.rs1.range(), x.rs1.file());
            add_sub("imm", x.imm.range(), x.imm.file());
        }
        ParserNode::LoadAddr(x) => {
            rd = reg(*x.rd.get());
            lab = x.name.get().to_string();
            add_sub("op", x.inst.range(), x.inst.file());
            add_sub("rd", x.rd.range(), x.rd.file());
            add_sub("lab", x.name.range(), x.name.file());
        }
        ParserNode::Csr(x) => {
            rd = reg(*x.rd.get());
            rs1 = reg(*x.rs1.get());
            csr = x.csr.get().value() as i64;
            add_sub("op", x.inst.range(), x.inst.file());
            add_sub("rd", x.rd.range(), x.rd.file());
            add_sub("rs1", x.rs1.range(), x.rs1.file());
            add_sub("csr", x.csr.range(), x.csr.file());
        }
        ParserNode::CsrI(x) => {
            rd = reg(*x.rd.get());
            csr = x.csr.get().value() as i64;
            imm = x.imm.get().value() as i64;
            himm = true;
            add_sub("op", x.inst.range(), x.inst.file());
            add_sub("rd", x.rd.range(), x.rd.file());
            add_sub("csr", x.csr.range(), x.csr.file());
            add_sub("imm", x.imm.range(), x.imm.file());
        }
        ParserNode::ProgramEntry(_) | ParserNode::FuncEntry(_) => {}
    }
    let mut reads: Vec<i64> = n.reads_from().iter().map(|r| reg(*r.get())).collect();
    reads.sort_unstable();
    reads.dedup();
    let mut m = Map::new();
    m.insert("k".into(), json!(kind_of(n)));
    m.insert(
        "op".into(),
        json!(if n.is_instruction() {
            n.inst().to_string()
        } else {
            String::new()
        }),
    );
    m.insert("rd".into(), json!(rd));
    m.insert("rs1".into(), json!(rs1));
    m.insert("rs2".into(), json!(rs2));
    m.insert("imm".into(), json!(imm));
    m.insert("himm".into(), json!(himm));
    m.insert("lab".into(), json!(lab));
    m.insert("csr".into(), json!(csr));
    m.insert("dir".into(), json!(dir));
    m.insert("vals".into(), Value::Array(vals));
    m.insert("reads".into(), json!(reads));
    m.insert(
        "writes".into(),
        json!(n.writes_to().map_or(-1, |r| reg(*r.get()))),
    );
    m.insert(
        "jumps".into(),
        json!(n.jumps_to().map_or(String::new(), |l| l.get().to_string())),
    );
    m.insert(
        "calls".into(),
        json!(n.calls_to().map_or(String::new(), |l| l.get().to_string())),
    );
    m.insert(
        "addrof".into(),
        json!(n
            .reads_address_of()
            .map_or(String::new(), |l| l.get().to_string())),
    );
    // what the dataflow analyses take the node to overwrite / to read (analysis/gen_kill.rs)
    {
        use riscv_analysis::analysis::HasGenKillInfo;
        let mut kill: Vec<i64> = n.kill_reg().into_iter().map(reg).collect();
        kill.sort_unstable();
        let mut gen: Vec<i64> = n.gen_reg().into_iter().map(reg).collect();
        gen.sort_unstable();
        m.insert("kill".into(), json!(kill));
        m.insert("gen".into(), json!(gen));
    }
    m.insert("ret".into(), json!(n.is_return()));
    m.insert("ecall".into(), json!(n.is_ecall()));
    m.insert("ujump".into(), json!(n.is_unconditional_jump()));
    m.insert("isinst".into(), json!(n.is_instruction()));
    m.insert("file".into(), json!(files(n.file())));
    range_into(&mut m, &n.range());
    m.insert("raw".into(), json!(n.raw_text()));
    m.insert("sub".into(), Value::Array(sub));
    Value::Object(m)
}

pub fn parse_error_json(e: &ParseError, files: &dyn Fn(Uuid) -> i64) -> Value {
    let kind = match e {
        ParseError::Expected(..) => "Expected",
        ParseError::Unsupported(_) => "Unsupported",
        ParseError::UnexpectedToken(_) => "UnexpectedToken",
        ParseError::UnexpectedError(_) => "UnexpectedError",
        ParseError::UnknownDirective(_) => "UnknownDirective",
        ParseError::CyclicDependency(_) => "CyclicDependency",
        ParseError::FileNotFound(_) => "FileNotFound",
        ParseError::IOError(..) => "IOError",
        ParseError::InvalidString(..) => "InvalidString",
    };
    let mut m = Map::new();
    m.insert("kind".into(), json!(kind));
    m.insert("title".into(), json!(e.to_string()));
    m.insert("file".into(), json!(files(e.file())));
    m.insert("raw".into(), json!(e.raw_text()));
    range_into(&mut m, &e.range());
    Value::Object(m)
}

pub fn value_json(v: &AvailableValue) -> Value {
    let (t, r, n, s): (&str, i64, i64, String) = match v {
        AvailableValue::Constant(c) => ("c", -1, *c as i64, String::new()),
        AvailableValue::Address(l) => ("a", -1, 0, l.get().to_string()),
        AvailableValue::Memory(l, o) => ("m", -1, *o as i64, l.to_string()),
        AvailableValue::RegisterWithScalar(r, o) => ("rs", reg(*r), *o as i64, String::new()),
        AvailableValue::OriginalRegisterWithScalar(r, o) => {
            ("ors", reg(*r), *o as i64, String::new())
        }
        AvailableValue::MemoryAtRegister(r, o) => ("mr", reg(*r), *o as i64, String::new()),
        AvailableValue::MemoryAtOriginalRegister(r, o) => {
            ("omr", reg(*r), *o as i64, String::new())
        }
        AvailableValue::ValueInCsr(c) => ("csr", c.value() as i64, 0, String::new()),
        AvailableValue::MemoryAtCsr(c, o) => ("mc", c.value() as i64, *o as i64, String::new()),
    };
    json!({"t": t, "r": r, "n": n, "s": s})
}

pub fn regmap_json(m: &AvailableValueMap<Register>) -> Value {
    let mut v: Vec<(i64, Value)> = m.iter().map(|(r, v)| (reg(*r), value_json(v))).collect();
    v.sort_by_key(|x| x.0);
    Value::Array(
        v.into_iter()
            .map(|(r, v)| json!({"reg": r, "v": v}))
            .collect(),
    )
}

pub fn memloc_json(l: &MemoryLocation) -> Value {
    match l {
        MemoryLocation::StackOffset(o) => json!({"t": "so", "c": -1, "o": o}),
        MemoryLocation::CsrRegister(c) => json!({"t": "csr", "c": c.value(), "o": 0}),
        MemoryLocation::CsrRegisterValueOffset(c, o) => {
            json!({"t": "csro", "c": c.value(), "o": o})
        }
    }
}

pub fn memmap_json(m: &AvailableValueMap<MemoryLocation>) -> Value {
    let mut v: Vec<(MemoryLocation, Value)> =
        m.iter().map(|(l, v)| (l.clone(), value_json(v))).collect();
    v.sort_by(|a, b| a.0.cmp(&b.0));
    Value::Array(
        v.into_iter()
            .map(|(l, v)| json!({"loc": memloc_json(&l), "v": v}))
            .collect(),
    )
}

pub struct Indexer {
    map: HashMap<*const CfgNode, usize>,
}
impl Indexer {
    pub fn new(cfg: &Cfg) -> Self {
        let mut map = HashMap::new();
        for (i, n) in cfg.nodes().iter().enumerate() {
            map.insert(Rc::as_ptr(n), i + 1);
        }
        Indexer { map }
    }
    pub fn idx(&self, n: &Rc<CfgNode>) -> i64 {
        self.map.get(&Rc::as_ptr(n)).map_or(-1, |x| *x as i64)
    }
}

fn sorted_idx<'a, I: Iterator<Item = &'a Rc<CfgNode>>>(ix: &Indexer, it: I) -> Value {
    let mut v: Vec<i64> = it.map(|n| ix.idx(n)).collect();
    v.sort_unstable();
    json!(v)
}

/// Full abstract state of a Cfg.
pub fn cfg_json(cfg: &Cfg, files: &dyn Fn(Uuid) -> i64) -> Value {
    let ix = Indexer::new(cfg);
    let mut nodes = vec![];
    for n in cfg.nodes() {
        let mut m = Map::new();
        m.insert("node".into(), node_json(&n.node(), files));
        let mut labels: Vec<String> = n.labels().iter().map(|l| l.get().to_string()).collect();
        labels.sort();
        m.insert("labels".into(), json!(labels));
        m.insert(
            "seg".into(),
            json!(match n.segment() {
                Segment::Text => "text",
                Segment::Data => "data",
            }),
        );
        m.insert("nexts".into(), sorted_idx(&ix, n.nexts().iter()));
        m.insert("prevs".into(), sorted_idx(&ix, n.prevs().iter()));
        m.insert("live_in".into(), regset(n.live_in()));
        m.insert("live_out".into(), regset(n.live_out()));
        m.insert("udef".into(), regset(n.u_def()));
        m.insert("rin".into(), regmap_json(&n.reg_values_in()));
        m.insert("rout".into(), regmap_json(&n.reg_values_out()));
        m.insert("min".into(), memmap_json(&n.memory_values_in()));
        m.insert("mout".into(), memmap_json(&n.memory_values_out()));
        let mut fe: Vec<i64> = n.functions().iter().map(|f| ix.idx(&f.entry())).collect();
        fe.sort_unstable();
        m.insert("funcs".into(), json!(fe));
        m.insert("nfuncs".into(), json!(n.functions().len()));
        let mut fp: Vec<(i64, i64)> = n
            .functions()
            .iter()
            .map(|f| (ix.idx(&f.entry()), ix.idx(&Rc::clone(&f.exit()))))
            .collect();
        fp.sort_unstable();
        m.insert("fpairs".into(), json!(fp.iter().map(|(a, b)| vec![*a, *b]).collect::<Vec<_>>()));
        nodes.push(Value::Object(m));
    }
    // function table: one record per map entry (label), plus distinct functions
    let mut table = vec![];
    for (label, f) in cfg.functions() {
        let mut fnodes: Vec<i64> = f.nodes().iter().map(|n| ix.idx(n)).collect();
        fnodes.sort_unstable();
        let exit = Rc::clone(&f.exit());
        table.push(json!({
            "label": label.get().to_string(),
            "entry": ix.idx(&f.entry()),
            "exit": ix.idx(&exit),
            "nodes": fnodes,
            "defs": regset(*f.defs()),
            "args": regset(f.arguments()),
            "rets": regset(f.returns()),
        }));
    }
    table.sort_by(|a, b| a["label"].as_str().cmp(&b["label"].as_str()));
    json!({"nodes": nodes, "funcs": table})
}

pub fn lint_json(d: &DiagnosticManager, files: &dyn Fn(Uuid) -> i64) -> Value {
    let mut out = vec![];
    for x in d.iter() {
        let mut m = Map::new();
        m.insert("code".into(), json!(x.get_error_code()));
        m.insert("title".into(), json!(x.get_title()));
        m.insert("level".into(), json!(level_str(&x.get_severity())));
        m.insert("file".into(), json!(files(x.file())));
        m.insert("raw".into(), json!(x.raw_text()));
        m.insert("desc".into(), json!(x.get_long_description()));
        range_into(&mut m, &x.range());
        out.push(Value::Object(m));
    }
    Value::Array(out)
}

pub fn item_json(d: &DiagnosticItem, files: &dyn Fn(Uuid) -> i64) -> Value {
    let mut m = Map::new();
    m.insert("title".into(), json!(d.title));
    m.insert("level".into(), json!(level_str(&d.level)));
    m.insert("file".into(), json!(files(d.file)));
    m.insert("desc".into(), json!(d.description));
    m.insert(
        "related".into(),
        Value::Array(
            d.related
                .clone()
                .unwrap_or_default()
                .iter()
                .map(|r| {
                    let mut m = Map::new();
                    m.insert("file".into(), json!(files(r.file)));
                    m.insert("desc".into(), json!(r.description));
                    range_into(&mut m, &r.range);
                    Value::Object(m)
                })
                .collect(),
        ),
    );
    range_into(&mut m, &d.range);
    Value::Object(m)
}

pub fn files_fn(reader: &MemReader) -> impl Fn(Uuid) -> i64 + '_ {
    move |u| {
        if u.is_nil() {
            0
        } else {
            reader.file_index(u)
        }
    }
}
