----------------------------- MODULE Gen_Conform -----------------------------
(***************************************************************************)
(* spec -> impl generator of convention-conforming programs (C04) and of   *)
(* single injected violations (C05).                                       *)
(*                                                                         *)
(* A program is a sequence of lines [t |-> text, g |-> tag].  It is built  *)
(* from function templates that conform by construction: every function    *)
(* restores sp, ra and the saved registers it modifies from its own frame  *)
(* below the entry sp, reads only its arguments / own definitions /        *)
(* preserved saved registers, keeps nothing caller-saved alive across a    *)
(* call or ecall, uses every value it computes, passes exactly the         *)
(* arguments its callee reads, and main ends with an exit ecall.           *)
(* Choice points: which templates, which callee, frame size and slot       *)
(* order, constants, call sequence of main, data section, label prefix.    *)
(*                                                                         *)
(* Inject(kind) edits one tagged line and states, independently of the     *)
(* analyzer, where which diagnostic must appear.                           *)
(***************************************************************************)
EXTENDS Integers, Sequences, FiniteSets, TLC, Json
CONSTANTS WithInject,     \* FALSE: conforming programs only; TRUE: also one injection per program
          Cover           \* TRUE: the small exhaustive covering family
VARIABLES phase, f1, f2, f3, lay, mainseq, inj, extra
vars == <<phase, f1, f2, f3, lay, mainseq, inj, extra>>
\* inj = <<kind, function, variant>>

L(t, g) == [t |-> t, g |-> g]
I(t, g) == L("    " \o t, g)
S(n) == ToString(n)

\* ------------------------------------------------------------------ leaf templates (arity, returns)
Leaves == {"add2", "sumloop", "sign", "print", "local", "bytes", "counted", "tablecheck", "max2",
           "rotloop", "readint", "sbrk", "randrange", "tworet", "subframe"}
Arity(k) == CASE k \in {"add2", "max2", "twice", "randrange"} -> 2 [] k \in {"tablecheck", "loadmax", "readint"} -> 0 [] OTHER -> 1
Returns(k) == k # "print"

Leaf(n, k) ==
  CASE k = "add2" ->
        << L(n \o ":", n \o ":label"), I("add a0, a0, a1", n \o ":first"), I("ret", n \o ":ret") >>
    [] k = "sumloop" ->
        << L(n \o ":", n \o ":label"), I("li t0, 0", n \o ":first"), L(n \o "_loop:", ""), I("add t0, t0, a0", ""),
           I("addi a0, a0, -1", ""), I("bnez a0, " \o n \o "_loop", ""), I("mv a0, t0", n \o ":retval"), I("ret", n \o ":ret") >>
    [] k = "sign" ->
        << L(n \o ":", n \o ":label"), I("beqz a0, " \o n \o "_z", n \o ":first"), I("li a0, 1", ""), I("j " \o n \o "_e", n \o ":jump"),
           L(n \o "_z:", ""), I("li a0, 2", ""), L(n \o "_e:", ""), I("ret", n \o ":ret") >>
    [] k = "print" ->
        << L(n \o ":", n \o ":label"), I("li a7, 1", n \o ":first"), I("ecall", n \o ":ecall"), I("ret", n \o ":ret") >>
    [] k = "tablecheck" ->   \* no arguments; the result is set before a loop over a global table; two returns
        << L(n \o ":", n \o ":label"), I("la t0, msg", n \o ":first"), I("li t1, 2", ""), I("li a0, 1", ""), L(n \o "_loop:", ""),
           I("lw t2, 0(t0)", ""), I("lw t3, 4(t0)", ""), I("bgt t2, t3, " \o n \o "_fail", ""), I("addi t0, t0, 4", ""),
           I("addi t1, t1, -1", ""), I("bnez t1, " \o n \o "_loop", ""), I("ret", ""), L(n \o "_fail:", ""),
           I("li a0, 0", ""), I("ret", n \o ":ret") >>
    [] k = "max2" ->         \* hands one of its arguments back unchanged on one path
        << L(n \o ":", n \o ":label"), I("bge a0, a1, " \o n \o "_done", n \o ":first"), I("mv a0, a1", ""), L(n \o "_done:", ""),
           I("ret", n \o ":ret") >>
    [] k = "bytes" ->     \* sub-word locals directly below / next to a saved register's slot
        << L(n \o ":", n \o ":label"), I("addi sp, sp, -16", n \o ":first"), I("sw s0, 8(sp)", ""), I("mv s0, a0", ""),
           I("sb a0, 7(sp)", ""), I("sh a0, 4(sp)", ""), I("sb a0, 12(sp)", ""), I("lbu t0, 7(sp)", ""), I("lh t1, 4(sp)", ""),
           I("add t0, t0, t1", ""), I("add a0, t0, s0", n \o ":retval"), I("lw s0, 8(sp)", ""), I("addi sp, sp, 16", n \o ":free"), I("ret", n \o ":ret") >>
    [] k = "counted" ->   \* the result is set before a loop that does not touch it
        << L(n \o ":", n \o ":label"), I("mv t1, a0", n \o ":first"), I("li a0, 1", ""), L(n \o "_loop:", ""), I("addi t1, t1, -1", ""),
           I("bnez t1, " \o n \o "_loop", ""), I("ret", n \o ":ret") >>
    [] k = "rotloop" ->   \* bottom-tested loop (the body is entered only by a backward branch) in a function with a frame
        << L(n \o ":", n \o ":label"), I("addi sp, sp, -16", n \o ":first"), I("sw s0, 8(sp)", ""), I("li s0, 0", ""),
           I("j " \o n \o "_test", n \o ":jump"), L(n \o "_body:", ""), I("add s0, s0, a0", ""), I("addi a0, a0, -1", ""),
           L(n \o "_test:", ""), I("bgtz a0, " \o n \o "_body", ""), I("mv a0, s0", n \o ":retval"), I("lw s0, 8(sp)", ""),
           I("addi sp, sp, 16", n \o ":free"), I("ret", n \o ":ret") >>
    [] k = "tworet" ->    \* frame and saved register, two returns; the tagged restore / free are on the path to the later one
        << L(n \o ":", n \o ":label"), I("addi sp, sp, -16", n \o ":first"), I("sw s0, 8(sp)", n \o ":save-s0"), I("mv s0, a0", n \o ":def-s0"),
           I("beqz a0, " \o n \o "_zero", ""), I("add a0, s0, s0", ""), I("lw s0, 8(sp)", ""), I("addi sp, sp, 16", ""), I("ret", ""),
           L(n \o "_zero:", ""), I("li a0, 7", ""), I("lw s0, 8(sp)", n \o ":restore-s0"), I("addi sp, sp, 16", n \o ":free"), I("ret", n \o ":ret") >>
    [] k = "subframe" ->  \* the frame is allocated by subtracting a constant held in a register and released with an lui-built constant
        << L(n \o ":", n \o ":label"), I("li t0, 4096", n \o ":first"), I("sub sp, sp, t0", n \o ":alloc"), I("sw s0, 8(sp)", n \o ":save-s0"),
           I("mv s0, a0", n \o ":def-s0"), I("slli a0, s0, 1", ""), I("add a0, a0, s0", n \o ":retval"), I("lw s0, 8(sp)", n \o ":restore-s0"),
           I("lui t1, 1", ""), I("add sp, sp, t1", n \o ":free"), I("ret", n \o ":ret") >>
    [] k = "readint" ->   \* the result comes from an environment call and is handed back untouched
        << L(n \o ":", n \o ":label"), I("li a7, 5", n \o ":first"), I("ecall", n \o ":ecall"), I("ret", n \o ":ret") >>
    [] k = "sbrk" ->      \* environment call whose result register is also its argument
        << L(n \o ":", n \o ":label"), I("li a7, 9", n \o ":first"), I("ecall", n \o ":ecall"), I("ret", n \o ":ret") >>
    [] k = "randrange" -> \* two arguments, result in the first
        << L(n \o ":", n \o ":label"), I("li a7, 42", n \o ":first"), I("ecall", n \o ":ecall"), I("ret", n \o ":ret") >>
    [] k = "local" ->
        << L(n \o ":", n \o ":label"), I("addi sp, sp, -8", n \o ":first"), I("sw a0, 4(sp)", ""), I("lw t0, 4(sp)", ""),
           I("addi sp, sp, 8", n \o ":free"), I("slli a0, t0, 1", n \o ":retval"), I("ret", n \o ":ret") >>

\* ------------------------------------------------------------------ non-leaf templates
\* frame layouts: <<frame size, offset of ra, offset of s0, offset of s1>>
Layouts == { <<16, 12, 8, 4>>, <<16, 0, 4, 8>>, <<16, 8, 0, 12>>, <<32, 28, 24, 20>>, <<12, 8, 4, 0>> }

NonLeaf(n, k, callee, ly) ==
  LET fs == S(ly[1]) ra == S(ly[2]) s0 == S(ly[3]) s1 == S(ly[4]) IN
  CASE k = "wrap" ->     \* one argument, result = callee(a0 + 1) + a0; callee: arity 1, returns
        << L(n \o ":", n \o ":label"), I("addi sp, sp, -" \o fs, n \o ":first"), I("sw ra, " \o ra \o "(sp)", n \o ":save-ra"),
           I("sw s0, " \o s0 \o "(sp)", n \o ":save-s0"), I("mv s0, a0", n \o ":def-s0"), I("addi a0, a0, 1", n \o ":before-call"),
           I("call " \o callee, n \o ":call"), I("add a0, a0, s0", n \o ":after-call"), I("lw s0, " \o s0 \o "(sp)", n \o ":restore-s0"),
           I("lw ra, " \o ra \o "(sp)", n \o ":restore-ra"), I("addi sp, sp, " \o fs, n \o ":free"), I("ret", n \o ":ret") >>
    [] k = "choose" ->   \* after the call two paths: one sets and uses a temporary of its own, the longer one does not touch it
        << L(n \o ":", n \o ":label"), I("addi sp, sp, -" \o fs, n \o ":first"), I("sw ra, " \o ra \o "(sp)", n \o ":save-ra"),
           I("sw s0, " \o s0 \o "(sp)", n \o ":save-s0"), I("mv s0, a0", n \o ":def-s0"), I("addi a0, a0, 1", n \o ":before-call"),
           I("call " \o callee, n \o ":call"), I("beqz a0, " \o n \o "_other", ""), I("li t1, 3", ""), I("add a0, a0, t1", ""),
           I("j " \o n \o "_done", n \o ":jump"), L(n \o "_other:", ""), I("addi a0, a0, 1", ""), I("addi a0, a0, 2", ""), I("slli a0, a0, 1", ""),
           L(n \o "_done:", ""), I("add a0, a0, s0", n \o ":after-call"), I("lw s0, " \o s0 \o "(sp)", n \o ":restore-s0"),
           I("lw ra, " \o ra \o "(sp)", n \o ":restore-ra"), I("addi sp, sp, " \o fs, n \o ":free"), I("ret", n \o ":ret") >>
    [] k = "rec" ->      \* recursive: f(n) = n = 0 ? 1 : n * f(n - 1)
        << L(n \o ":", n \o ":label"), I("addi sp, sp, -" \o fs, n \o ":first"), I("sw ra, " \o ra \o "(sp)", n \o ":save-ra"),
           I("sw s0, " \o s0 \o "(sp)", n \o ":save-s0"), I("mv s0, a0", n \o ":def-s0"), I("beqz a0, " \o n \o "_base", ""),
           I("addi a0, a0, -1", n \o ":before-call"), I("call " \o n, n \o ":call"), I("mul a0, a0, s0", n \o ":after-call"),
           I("j " \o n \o "_done", n \o ":jump"), L(n \o "_base:", ""), I("li a0, 1", ""), L(n \o "_done:", ""),
           I("lw s0, " \o s0 \o "(sp)", n \o ":restore-s0"), I("lw ra, " \o ra \o "(sp)", n \o ":restore-ra"),
           I("addi sp, sp, " \o fs, n \o ":free"), I("ret", n \o ":ret") >>
    [] k = "loadmax" ->  \* no arguments: loads two globals and returns callee(x, y); callee: arity 2, returns
        << L(n \o ":", n \o ":label"), I("addi sp, sp, -" \o fs, n \o ":first"), I("sw ra, " \o ra \o "(sp)", n \o ":save-ra"),
           I("la t0, msg", ""), I("lw a0, 0(t0)", ""), I("lw a1, 4(t0)", n \o ":before-call"), I("call " \o callee, n \o ":call"),
           I("lw ra, " \o ra \o "(sp)", n \o ":restore-ra"), I("addi sp, sp, " \o fs, n \o ":free"), I("ret", n \o ":ret") >>
    [] k = "twice" ->    \* two arguments, result = callee(a0) + callee(a1); callee: arity 1, returns
        << L(n \o ":", n \o ":label"), I("addi sp, sp, -" \o fs, n \o ":first"), I("sw ra, " \o ra \o "(sp)", n \o ":save-ra"),
           I("sw s0, " \o s0 \o "(sp)", n \o ":save-s0"), I("sw s1, " \o s1 \o "(sp)", n \o ":save-s1"), I("mv s1, a1", n \o ":def-s1"),
           I("call " \o callee, n \o ":call"), I("mv s0, a0", n \o ":def-s0"), I("mv a0, s1", n \o ":before-call"),
           I("call " \o callee, n \o ":call2"), I("add a0, a0, s0", n \o ":after-call"), I("lw s1, " \o s1 \o "(sp)", n \o ":restore-s1"),
           I("lw s0, " \o s0 \o "(sp)", n \o ":restore-s0"), I("lw ra, " \o ra \o "(sp)", n \o ":restore-ra"),
           I("addi sp, sp, " \o fs, n \o ":free"), I("ret", n \o ":ret") >>

\* ------------------------------------------------------------------ main: one call block per entry of the call sequence
\* a call block loads the arguments, calls, and consumes the result with a print ecall
CallBlock(fn, kind, c, i) ==
  (IF Arity(kind) >= 1 THEN << I("li a0, " \o S(c), "main:arg" \o S(i)) >> ELSE <<>>)
  \o (IF Arity(kind) = 2 THEN << I("li a1, " \o S(c + 1), "") >> ELSE <<>>)
  \o << I("call " \o fn, "main:call" \o S(i)) >>
  \o (IF Returns(kind)
        THEN (IF c = 4       \* the result is first read by an ordinary instruction
                THEN << I("mv t0, a0", ""), I("add a0, t0, t0", "") >> ELSE <<>>)
             \o << I("li a7, 1", "main:a7-" \o S(i)), I("ecall", "main:print" \o S(i)) >>
        ELSE <<>>)

RECURSIVE Blocks(_, _, _)
Blocks(seq, kinds, i) ==
  IF i > Len(seq) THEN <<>>
  ELSE CallBlock("F" \o S(seq[i][1]), kinds[seq[i][1]], seq[i][2], i) \o Blocks(seq, kinds, i + 1)

\* ex: "none" | "alias" (a second label on the entry of F1) | "data-before" (a data block with a label directly before F2)
ProgramX(k1, k2, k3, ly, ms, ex) ==
  LET kinds == <<k1, k2, k3>>
      F1 == (IF ex = "alias" THEN << L("F1_also:", "") >> ELSE <<>>) \o Leaf("F1", k1)
      F2 == (IF ex = "data-before" THEN << L(".data", ""), L("buf: .word 0", ""), L(".text", "") >> ELSE <<>>) \o NonLeaf("F2", k2, "F1", ly)
      F3 == IF k3 = "none" THEN <<>> ELSE Leaf("F3", k3)
  IN << L(".data", ""), L("msg: .word 1, 2, 3", ""), L(".text", "text"), L("main:", "main:label") >>
     \o Blocks(ms, kinds, 1)
     \o << I("li a7, 10", "main:exit-a7"), I("ecall", "main:exit") >>
     \o F1 \o F2 \o F3
Program(k1, k2, k3, ly, ms) ==
  LET kinds == <<k1, k2, k3>>
      F1 == Leaf("F1", k1)
      F2 == NonLeaf("F2", k2, "F1", ly)
      F3 == IF k3 = "none" THEN <<>> ELSE Leaf("F3", k3)
  IN << L(".data", ""), L("msg: .word 1, 2, 3", ""), L(".text", "text"), L("main:", "main:label") >>
     \o Blocks(ms, kinds, 1)
     \o << I("li a7, 10", "main:exit-a7"), I("ecall", "main:exit") >>
     \o F1 \o F2 \o F3

\* ------------------------------------------------------------------ line editing
Idx(p, tag) == CHOOSE i \in 1..Len(p) : p[i].g = tag
Has(p, tag) == \E i \in 1..Len(p) : p[i].g = tag
Del(p, i) == SubSeq(p, 1, i - 1) \o SubSeq(p, i + 1, Len(p))
InsAfter(p, i, ls) == SubSeq(p, 1, i) \o ls \o SubSeq(p, i + 1, Len(p))
Repl(p, i, l) == [p EXCEPT ![i] = l]

\* expectation: codes (any of), tag of the line the diagnostic must be on, register operand (-1: the instruction / any operand)
E(codes, tag, reg) == [codes |-> codes, tag |-> tag, reg |-> reg, alt |-> ""]
E2(codes, tag, alt) == [codes |-> codes, tag |-> tag, reg |-> -1, alt |-> alt]     \* either of two lines

InjKinds == {"saved-not-restored", "sp-not-restored", "ra-not-restored", "temp-after-call",
             "never-assigned-in-function", "never-assigned-in-main", "never-assigned-after-ecall",
             "unused-assignment", "write-to-zero", "stack-at-entry-sp", "stack-above-entry-sp", "in-data-segment",
             "unknown-ecall", "unreachable-after-ret", "unreachable-after-jump", "jump-into-function",
             "fall-through-into-function", "function-first-in-program",
             "saved-from-another-saved", "in-data-segment-after-include"}

\* Inject(p, kind, fn) = [ok, prog, exp] ; fn is the function the injection goes into ("F1" / "F2")
Inject(p, kind, fn, var) ==
  LET no == [ok |-> FALSE, prog |-> p, exp |-> E({}, "", -1)]
      yes(q, e) == [ok |-> TRUE, prog |-> q, exp |-> e]
      t(x) == fn \o ":" \o x
  IN
  CASE kind = "saved-not-restored" ->
        IF Has(p, t("restore-s0")) THEN yes(Del(p, Idx(p, t("restore-s0"))), E({"overwrite-callee-saved-register"}, t("def-s0"), 8)) ELSE no
    \* the saved register gets the entry value of another saved register back instead of its own
    [] kind = "saved-from-another-saved" ->
        IF Has(p, t("restore-s0")) /\ ~Has(p, t("def-s1"))
          THEN yes(Repl(p, Idx(p, t("restore-s0")), I("mv s0, s1", "inj")), E({"overwrite-callee-saved-register"}, "inj", 8)) ELSE no
    [] kind = "sp-not-restored" ->
        IF Has(p, t("free")) THEN yes(Del(p, Idx(p, t("free"))), E({"overwrite-callee-saved-register", "invalid-stack-position", "invalid-stack-pointer"},
                                                            IF Has(p, t("alloc")) THEN t("alloc") ELSE t("first"), 2)) ELSE no
    [] kind = "ra-not-restored" ->
        \* the write of ra nearest to the return is the last call of the function
        IF Has(p, t("restore-ra"))
          THEN yes(Del(p, Idx(p, t("restore-ra"))),
                   E({"overwrite-callee-saved-register"}, IF Has(p, t("call2")) THEN t("call2") ELSE t("call"), -1))
          ELSE no
    [] kind = "temp-after-call" ->
        IF Has(p, t("after-call")) /\ Has(p, t("before-call"))
          THEN (IF var = 1
                  THEN yes(InsAfter(Repl(p, Idx(p, t("after-call")), I("add a0, a0, t1", "inj")), Idx(p, t("before-call")) - 1, << I("li t1, 5", "") >>),
                           E({"invalid-use-after-call"}, "inj", 6))
                ELSE IF var = 2     \* the offending read is a read-modify-write of the same register
                  THEN yes(InsAfter(InsAfter(p, Idx(p, t("after-call")) - 1, << I("addi t1, t1, 1", "inj") >>), Idx(p, t("before-call")) - 1, << I("li t1, 5", "") >>),
                           E({"invalid-use-after-call"}, "inj", 6))
                ELSE yes(InsAfter(InsAfter(p, Idx(p, t("after-call")) - 1, << I("sw t3, -4(sp)", "inj") >>), Idx(p, t("before-call")) - 1, << I("li t3, 5", "") >>),
                         E({"invalid-use-after-call"}, "inj", 28)))
          ELSE no
    [] kind = "never-assigned-in-function" ->
        IF Has(p, t("first")) /\ fn = "F1"
          THEN yes(InsAfter(p, Idx(p, t("label")), << I(CASE var = 1 -> "add a0, a0, t4" [] var = 2 -> "addi t4, t4, 1" [] OTHER -> "bnez t4, " \o fn \o "_nowhere", "inj") >>
                            \o (IF var = 3 THEN << L(fn \o "_nowhere:", "") >> ELSE <<>>)),
                   E({"invalid-use-before-assignment"}, "inj", 29))
          ELSE no
    [] kind = "never-assigned-in-main" ->
        IF fn = "F1" /\ Has(p, "main:arg1") THEN yes(InsAfter(p, Idx(p, "main:arg1"), << I(CASE var = 1 -> "add a0, a0, t4" [] var = 2 -> "addi t4, t4, 1" [] OTHER -> "sw t4, -4(sp)", "inj") >>),
                              E({"invalid-use-before-assignment"}, "inj", 29)) ELSE no
    [] kind = "never-assigned-after-ecall" ->      \* the never-assigned temporary is read behind an environment call
        IF fn = "F1" /\ Has(p, "main:print1") THEN yes(InsAfter(p, Idx(p, "main:print1"), << I("add a0, a0, t4", "inj"), I("li a7, 1", ""), I("ecall", "") >>),
                                                        E({"invalid-use-before-assignment", "invalid-use-after-call"}, "inj", 29)) ELSE no
    [] kind = "unused-assignment" ->
        IF Has(p, t("ret")) THEN yes(InsAfter(p, Idx(p, t("ret")) - 1, << I(CASE var = 1 -> "li t2, 9" [] var = 2 -> "mv t2, a0" [] OTHER -> "slli t2, a0, 3", "inj") >>), E({"dead-assignment"}, "inj", 7)) ELSE no
    [] kind = "write-to-zero" ->
        IF Has(p, t("ret")) THEN yes(InsAfter(p, Idx(p, t("ret")) - 1, << I(CASE var = 1 -> "add zero, a0, a0" [] var = 2 -> "li zero, 5" [] OTHER -> "addi zero, zero, 1", "inj") >>), E({"save-to-zero"}, "inj", 0)) ELSE no
    [] kind = "stack-at-entry-sp" ->
        IF Has(p, t("ret")) /\ ~Has(p, t("free")) THEN yes(InsAfter(p, Idx(p, t("label")), << I(CASE var = 1 -> "sw a0, 0(sp)" [] var = 2 -> "sw zero, 0(sp)" [] OTHER -> "lw t5, 4(sp)", "inj") >>
                                                             \o (IF var = 3 THEN << I("add a0, a0, t5", "") >> ELSE <<>>)),
                                                        E({"invalid-stack-offset-usage"}, "inj", -1)) ELSE no
    [] kind = "stack-above-entry-sp" ->
        IF Has(p, t("save-ra")) THEN yes(InsAfter(p, Idx(p, t("save-ra")), << I(CASE var = 1 -> "sw a0, 64(sp)" [] var = 2 -> "sh zero, 66(sp)" [] OTHER -> "sb a0, 65(sp)", "inj") >>),
                                              E({"invalid-stack-offset-usage"}, "inj", -1)) ELSE no
    \* the data section pulls its values in from another file: the instruction behind the directive is still in .data
    [] kind = "in-data-segment-after-include" ->
        IF Has(p, t("ret")) THEN yes(InsAfter(p, Idx(p, t("ret")) - 1, << L(".data", ""), L(".include \"d.s\"", ""), I("addi a0, a0, 0", "inj"), L(".text", "") >>), E({"invalid-segment"}, "inj", -1)) ELSE no
    [] kind = "in-data-segment" ->
        IF Has(p, t("ret")) THEN yes(InsAfter(p, Idx(p, t("ret")) - 1, << L(".data", ""), I("addi a0, a0, 0", "inj"), L(".text", "") >>), E({"invalid-segment"}, "inj", -1)) ELSE no
    [] kind = "unknown-ecall" ->
        IF Has(p, "main:a7-1") THEN yes(Repl(p, Idx(p, "main:a7-1"), I("mv a7, a0", "")), E({"unknown-ecall"}, "main:print1", -1)) ELSE no
    [] kind = "unreachable-after-ret" ->
        IF Has(p, t("ret")) THEN yes(InsAfter(p, Idx(p, t("ret")), << I("addi a0, a0, 1", "inj") >>), E({"unreachable-code"}, "inj", -1)) ELSE no
    [] kind = "unreachable-after-jump" ->
        IF Has(p, t("jump")) THEN yes(InsAfter(p, Idx(p, t("jump")), << I("addi a0, a0, 1", "inj") >>), E({"unreachable-code"}, "inj", -1)) ELSE no
    [] kind = "jump-into-function" ->
        IF Has(p, "main:call2") /\ p[Idx(p, "main:call2")].t = "    call " \o fn
           /\ Cardinality({ i \in 1..Len(p) : p[i].t = "    call " \o fn }) >= 2
          THEN yes(Repl(p, Idx(p, "main:call2"), I("j " \o fn, "inj")), E({"invalid-jump-to-function"}, t("first"), -1))
          ELSE no
    [] kind = "fall-through-into-function" ->
        IF fn = "F1" /\ Has(p, "F1:ret") THEN yes(Del(p, Idx(p, "F1:ret")), E2({"invalid-jump-to-function", "node-in-many-functions", "first-instruction-is-function"}, "F2:first", "F2:label")) ELSE no
    [] kind = "function-first-in-program" ->
        \* the program starts with function F1 (main is moved behind it)
        IF fn = "F1"
          THEN LET a == Idx(p, "F1:label") b == Idx(p, "F1:ret") m == Idx(p, "main:label") x == Idx(p, "main:exit")
               IN yes(SubSeq(p, 1, m - 1) \o SubSeq(p, a, b) \o SubSeq(p, m, x) \o SubSeq(p, b + 1, Len(p)),
                      E2({"first-instruction-is-function"}, "F1:first", "F1:label"))
          ELSE no

RECURSIVE TextOf(_, _)
TextOf(p, i) == IF i > Len(p) THEN "" ELSE p[i].t \o "\n" \o TextOf(p, i + 1)
\* 0-based line of a tag; a label tag on the expected line also counts (label and first instruction are distinct lines)
LineOfTag(p, tag) == IF Has(p, tag) THEN Idx(p, tag) - 1 ELSE -1

\* index of the first of the label-only lines directly in front of line i (i itself if there is none)
IsLabelLine(l) == Len(l.t) > 0 /\ SubSeq(l.t, Len(l.t), Len(l.t)) = ":"
RECURSIVE FirstLabelLine(_, _)
FirstLabelLine(p, i) == IF i > 1 /\ IsLabelLine(p[i - 1]) THEN FirstLabelLine(p, i - 1) ELSE i

\* ------------------------------------------------------------------ state machine
\* Cover = TRUE: a small exhaustive family in which every template meets every way its result is consumed
\* (run in full by every check; the large family is sampled with tlc -simulate)
MainSeqs == IF Cover THEN [1..2 -> (1..2) \X {2, 4}] ELSE UNION { [1..n -> (1..3) \X {2, 4}] : n \in 1..3 }
Init == phase = "start" /\ f1 = "" /\ f2 = "" /\ f3 = "" /\ lay = <<16, 12, 8, 4>> /\ mainseq = <<>> /\ inj = <<"", "", 1>> /\ extra = "none"
PickFns == /\ phase = "start"
           /\ \E a \in Leaves \ {"print"}, b \in {"wrap", "rec", "twice", "loadmax", "choose"}, c \in Leaves \cup {"none"}, ly \in Layouts :
                \* the callee F1 must have the arity its caller F2 passes
                /\ (b \in {"wrap", "twice", "choose"} => Arity(a) = 1)
                /\ (b = "loadmax" => Arity(a) = 2)
                /\ (Cover => c = "none" /\ ly = <<16, 12, 8, 4>>)
                /\ f1' = a /\ f2' = b /\ f3' = c /\ lay' = ly
           /\ \E ex \in (IF WithInject THEN {"none"} ELSE {"none", "alias", "data-before"}) : extra' = ex
           /\ phase' = "main" /\ UNCHANGED <<mainseq, inj>>
PickMain == /\ phase = "main"
            /\ \E ms \in MainSeqs :
                 /\ \A i \in 1..Len(ms) : ms[i][1] = 3 => f3 # "none"
                 /\ \A k \in {1, 2} : \E i \in 1..Len(ms) : ms[i][1] = k      \* F1 and F2 are called (F1 also by F2)
                 /\ (f3 # "none" => \E i \in 1..Len(ms) : ms[i][1] = 3)
                 /\ mainseq' = ms
            /\ phase' = (IF WithInject THEN "inject" ELSE "emit") /\ UNCHANGED <<f1, f2, f3, lay, inj, extra>>
PickInj == /\ phase = "inject"
           /\ \E k \in InjKinds, fn \in {"F1", "F2"}, v \in 1..3 :
                /\ (Cover /\ k \notin {"stack-at-entry-sp", "stack-above-entry-sp"} => v = 1)
                /\ Inject(Program(f1, f2, f3, lay, mainseq), k, fn, v).ok
                /\ inj' = <<k, fn, v>>
           /\ phase' = "emit" /\ UNCHANGED <<f1, f2, f3, lay, mainseq, extra>>
Emit == /\ phase = "emit"
        /\ LET base == ProgramX(f1, f2, f3, lay, mainseq, extra)
               r == IF WithInject THEN Inject(base, inj[1], inj[2], inj[3]) ELSE [ok |-> TRUE, prog |-> base, exp |-> E({}, "", -1)]
           IN PrintT("CASE " \o ToJson([text |-> TextOf(r.prog, 1), f1 |-> f1, f2 |-> f2, f3 |-> f3, lay |-> lay,
                                        nmain |-> Len(mainseq), inj |-> inj[1], fn |-> inj[2], variant |-> inj[3],
                                        codes |-> r.exp.codes, line |-> LineOfTag(r.prog, r.exp.tag),
                                        alt |-> (IF r.exp.alt = "" THEN -1 ELSE FirstLabelLine(r.prog, Idx(r.prog, r.exp.tag)) - 1),
                                        reg |-> r.exp.reg]))
        /\ phase' = "done" /\ UNCHANGED <<f1, f2, f3, lay, mainseq, inj, extra>>
Next == PickFns \/ PickMain \/ PickInj \/ Emit
Spec == Init /\ [][Next]_vars
=============================================================================
