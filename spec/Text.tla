-------------------------------- MODULE Text --------------------------------
(***************************************************************************)
(* Reference: source text as a sequence of Unicode code points; the        *)
(* position function (line / column / raw offset), slices, lines, and the  *)
(* denotation of numeric literals.                                         *)
(*                                                                         *)
(* Offsets are 0-based as in the implementation: offset k designates       *)
(* text[k+1].  Lines and columns are 0-based.                              *)
(***************************************************************************)
EXTENDS Integers, Sequences, TLC

LF == 10
CR == 13

\* ---------------------------------------------------------------- positions
RECURSIVE CountLF(_, _, _)
CountLF(text, k, acc) ==           \* number of LF among text[1..k]
  IF k = 0 THEN acc ELSE CountLF(text, k - 1, IF text[k] = LF THEN acc + 1 ELSE acc)

RECURSIVE LastLF(_, _)
LastLF(text, k) ==                 \* largest j <= k with text[j] = LF, else 0
  IF k = 0 THEN 0 ELSE IF text[k] = LF THEN k ELSE LastLF(text, k - 1)

\* position of offset k (0 <= k <= Len(text))
LineOf(text, k) == CountLF(text, k, 0)
ColOf(text, k)  == k - LastLF(text, k)
PosOf(text, k)  == [line |-> LineOf(text, k), col |-> ColOf(text, k), raw |-> k]

\* characters from offset a to offset b inclusive
Slice(text, a, b) == IF a > b \/ a < 0 \/ b >= Len(text) THEN <<>> ELSE SubSeq(text, a + 1, b + 1)

\* ---------------------------------------------------------------- lines
\* the 0-based line numbers of a text: 0 .. LineOf(text, Len(text)) (last may be empty)
NumLines(text) == CountLF(text, Len(text), 0) + 1
RECURSIVE LineStartAcc(_, _, _, _)
LineStartAcc(text, i, k, pos) ==   \* offset of the first char of line i
  IF k = i THEN pos
  ELSE IF pos >= Len(text) THEN Len(text)
  ELSE LineStartAcc(text, i, IF text[pos + 1] = LF THEN k + 1 ELSE k, pos + 1)
LineStart(text, i) == LineStartAcc(text, i, 0, 0)
RECURSIVE LineEndFrom(_, _)
LineEndFrom(text, pos) ==          \* offset one past the last non-LF char of the line containing pos
  IF pos >= Len(text) THEN Len(text) ELSE IF text[pos + 1] = LF THEN pos ELSE LineEndFrom(text, pos + 1)
LineText(text, i) == LET s == LineStart(text, i) e == LineEndFrom(text, s) IN SubSeq(text, s + 1, e)

IsSpace(c) == c \in {32, 9, 44, CR}          \* space, tab, comma (a separator in this dialect), CR
RECURSIVE FirstNonSpace(_, _)
FirstNonSpace(s, i) == IF i > Len(s) THEN 0 ELSE IF IsSpace(s[i]) THEN FirstNonSpace(s, i + 1) ELSE i
\* a line is blank if it has only separators, comment-only if its first other char is '#'
IsBlankLine(s)   == FirstNonSpace(s, 1) = 0
IsCommentLine(s) == LET i == FirstNonSpace(s, 1) IN i > 0 /\ s[i] = 35

\* ---------------------------------------------------------------- literals
Digit(c)  == IF c >= 48 /\ c <= 57 THEN c - 48 ELSE -1
HexDig(c) == IF c >= 48 /\ c <= 57 THEN c - 48
             ELSE IF c >= 97 /\ c <= 102 THEN c - 87
             ELSE IF c >= 65 /\ c <= 70 THEN c - 55 ELSE -1
BinDig(c) == IF c = 48 THEN 0 ELSE IF c = 49 THEN 1 ELSE -1

K16 == 65536
BigHi == 131072          \* magnitudes >= 2^33 saturate to <<BigHi, 0>>

\* magnitude as limbs <<hi, lo>>, value = hi * 65536 + lo, saturating at 2^33
MulAdd(m, base, d) ==
  LET lo == m[2] * base + d
      hi == m[1] * base + (lo \div K16)
  IN IF hi >= BigHi THEN <<BigHi, 0>> ELSE <<hi, lo % K16>>

RECURSIVE Digits(_, _, _, _, _)
\* parse s[i..] as digits of `base`; result <<ok, magnitude>>
Digits(s, i, base, m, n) ==
  IF i > Len(s) THEN <<n > 0, m>>
  ELSE LET d == CASE base = 10 -> Digit(s[i]) [] base = 16 -> HexDig(s[i]) [] base = 2 -> BinDig(s[i])
       IN IF d < 0 THEN <<FALSE, m>> ELSE Digits(s, i + 1, base, MulAdd(m, base, d), n + 1)

\* Denote(cps) = [ok, neg, mag]: the integer a numeric literal spelling denotes
\*   literal ::= '-'? ( [0-9]+ | 0[xX][0-9a-fA-F]+ | 0[bB][01]+ )
Denote(s) ==
  LET neg  == Len(s) >= 1 /\ s[1] = 45
      st   == IF neg THEN 2 ELSE 1
      hex  == Len(s) >= st + 1 /\ s[st] = 48 /\ s[st + 1] \in {120, 88}
      bin  == Len(s) >= st + 1 /\ s[st] = 48 /\ s[st + 1] \in {98, 66}
      r    == IF hex THEN Digits(s, st + 2, 16, <<0, 0>>, 0)
              ELSE IF bin THEN Digits(s, st + 2, 2, <<0, 0>>, 0)
              ELSE Digits(s, st, 10, <<0, 0>>, 0)
  IN [ok |-> r[1], neg |-> neg /\ r[2] # <<0, 0>>, mag |-> r[2]]

\* range classes of a denoted integer v = (neg ? -mag : mag)
InInt32(d)  == IF d.neg THEN (d.mag[1] < 32768 \/ d.mag = <<32768, 0>>) ELSE d.mag[1] < 32768
\* -2^31 .. 2^32-1 : representable in 32 bits under either reading
In32Bits(d) == IF d.neg THEN (d.mag[1] < 32768 \/ d.mag = <<32768, 0>>) ELSE d.mag[1] < 65536
\* the two's-complement word of v mod 2^32 (for In32Bits values)
WordOf(d) ==
  LET h == d.mag[1] l == d.mag[2]
      u == IF h >= 32768 THEN (h - K16) * K16 + l ELSE h * K16 + l    \* unsigned limbs -> word
  IN IF ~d.neg THEN u
     ELSE IF d.mag = <<32768, 0>> THEN u          \* -2^31
     ELSE 0 - u
=============================================================================
