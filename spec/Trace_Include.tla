--------------------------- MODULE Trace_Include ---------------------------
(* impl -> spec (C15): the diagnostics recorded for an include tree, through *)
(* the in-memory FileReader API and through the rva binary on real files,    *)
(* equal the diagnostics of the flattened single file mapped back through    *)
(* Include!Flatten (same kinds, attributed to the file and file-relative     *)
(* line/columns where the text lives); a faulty directive yields exactly one *)
(* error on the directive's line and leaves everything else as if the line   *)
(* were absent.                                                              *)
EXTENDS Include, FiniteSets, Json, IOUtils
Rec == ndJsonDeserialize(IOEnv.TRACE)
VARIABLES l
vars == <<l>>
SeqSet(s) == { s[i] : i \in 1..Len(s) }
\* multiset as a function item -> count
Bag(s) == [x \in SeqSet(s) |-> Cardinality({ i \in 1..Len(s) : s[i] = x })]
P(d) == [title |-> d.title, level |-> d.level, file |-> d.file, line |-> d.line, c0 |-> d.c0, c1 |-> d.c1]
Proj(ds) == [i \in 1..Len(ds) |-> P(ds[i])]

FaultKinds == {"File not found", "IO Error", "Cyclic dependency"}
Judge(e) ==
  LET c == e.case IN
  IF c.fault = "none"
    THEN LET origin == Flatten(e.tree, "main.s")
             want == [i \in 1..Len(e.flat) |-> P(MapBack(origin, e.flat[i]))]
         IN (IF Bag(Proj(e.lib)) # Bag(want) THEN << "C15:library:differs-from-flattened-file" >> ELSE <<>>)
            \o (IF Bag(Proj(e.cli_all)) # Bag(want) THEN << "C15:cli-all-files:differs-from-flattened-file" >> ELSE <<>>)
            \o (IF Bag(Proj(e.cli_base)) # Bag(SelectSeq(want, LAMBDA d : d.file = "main.s"))
                  THEN << "C15:cli-base-file:differs-from-base-part" >> ELSE <<>>)
            \o (IF e.cli_hidden # Len(SelectSeq(want, LAMBDA d : d.file # "main.s"))
                  THEN << "C15:cli-base-file:hidden-count" >> ELSE <<>>)
            \* with --all-files the text channel shows everything and announces nothing as hidden
            \o (IF e.cli_ev = "ok" /\ Bag(Proj(e.cli_af)) # Bag(want) THEN << "C15:cli-all-files-text:differs-from-flattened-file" >> ELSE <<>>)
            \o (IF e.cli_ev = "ok" /\ e.cli_af_hidden # 0 THEN << "C15:cli-all-files-text:announces-hidden-diagnostics" >> ELSE <<>>)
            \* the same tree with every include written as an absolute path
            \o (IF e.abs_run /\ Bag(Proj(e.abs_all)) # Bag(want) THEN << "C15:cli-absolute-paths:differs-from-flattened-file" >> ELSE <<>>)
            \o (IF e.abs_run /\ Bag(Proj(e.abs_base)) # Bag(SelectSeq(want, LAMBDA d : d.file = "main.s"))
                  THEN << "C15:cli-absolute-paths:base-file-view-differs" >> ELSE <<>>)
            \o (IF e.abs_run /\ e.abs_hidden # Len(SelectSeq(want, LAMBDA d : d.file # "main.s"))
                  THEN << "C15:cli-absolute-paths:hidden-count" >> ELSE <<>>)
    ELSE \* the directive is on line c.dirline of file c.dirfile; twin = same tree with that line blank
      LET onDir(ds) == SelectSeq(ds, LAMBDA d : d.file = c.dirfile /\ d.line = c.dirline)
          rest(ds)  == SelectSeq(ds, LAMBDA d : ~(d.file = c.dirfile /\ d.line = c.dirline))
          shift(d)  == d      \* the twin keeps a blank line in place of the directive
          chan(name, ds, twin) ==
            (IF Len(onDir(ds)) # 1 \/ (Len(onDir(ds)) >= 1 /\ (onDir(ds)[1].kind \notin FaultKinds \/ onDir(ds)[1].level # "Error"))
               THEN << "C15:" \o name \o ":fault-" \o c.fault \o ":not-exactly-one-error-on-the-directive" >> ELSE <<>>)
            \o (IF Bag([i \in 1..Len(rest(ds)) |-> P(shift(rest(ds)[i]))]) # Bag(Proj(twin))
               THEN << "C15:" \o name \o ":fault-" \o c.fault \o ":rest-differs-from-file-without-directive" >> ELSE <<>>)
      IN (IF e.lib_ev # "obs" THEN << "C15:library:fault-" \o c.fault \o ":" \o e.lib_ev >> ELSE chan("library", e.lib, e.lib_twin))
         \o (IF e.cli_ev # "ok" THEN << "C15:cli:fault-" \o c.fault \o ":" \o e.cli_ev >> ELSE chan("cli", e.cli_all, e.cli_twin))

RECURSIVE Report(_, _, _)
Report(e, bad, i) ==
  IF i > Len(bad) THEN TRUE
  ELSE PrintT("VERDICT " \o ToJson([id |-> e.id, key |-> bad[i]])) /\ Report(e, bad, i + 1)
Init == l = 1
Next == l <= Len(Rec) /\ Report(Rec[l], Judge(Rec[l]), 1) /\ l' = l + 1
Spec == Init /\ [][Next]_vars
Accepted == IF TLCGet("stats").diameter = Len(Rec) + 1 THEN TRUE
            ELSE PrintT("TRACE-NOT-CONSUMED") /\ FALSE
=============================================================================
