#!/usr/bin/env python3
"""Run checks against a seeded change:  lib/seedrun.py seeded/<name> [--checks C01,C02|all] [--tier quick]
Applies patch.diff to /repo, runs the checks, ALWAYS reverts /repo, records the outcome in meta.json
("caught_by") and prints a summary.  Never commits anything in /repo."""
import json
import os
import subprocess
import sys
import time

VERIF = os.path.dirname(os.path.dirname(os.path.abspath(__file__)))
ALL = ["C%02d" % i for i in range(1, 20)]
# --scratch: work on a scratch worktree of /repo and a scratch copy of /verif (outside both), so that /repo and
# /verif stay usable meanwhile; the result is still written to the change's meta.json in /verif
SCRATCH = os.environ.get("SEED_SCRATCH", "/tmp/vs")


def setup_scratch():
    repo, verif = os.path.join(SCRATCH, "repo"), os.path.join(SCRATCH, "verif")
    os.makedirs(SCRATCH, exist_ok=True)
    head = subprocess.run(["git", "-C", "/repo", "rev-parse", "HEAD"], capture_output=True, text=True).stdout.strip()
    if not os.path.exists(repo):
        subprocess.run(["git", "-C", "/repo", "worktree", "add", "-q", "--detach", repo, head], check=True)
    subprocess.run(["git", "-C", repo, "checkout", "-q", "--detach", head], check=True)
    subprocess.run(["git", "-C", repo, "checkout", "--", "."], check=True)
    subprocess.run(["rsync", "-a", "--delete", "--exclude", "work/", "--exclude", ".git/", "--exclude", "replays/", "--exclude", "evidence/",
                    VERIF + "/", verif + "/"], check=True)
    os.makedirs(os.path.join(verif, "evidence"), exist_ok=True)
    return repo, verif


def main():
    d = os.path.abspath(sys.argv[1])
    checks = None
    tier = "quick"
    for i, a in enumerate(sys.argv):
        if a == "--checks":
            checks = ALL if sys.argv[i + 1] == "all" else sys.argv[i + 1].split(",")
        if a == "--tier":
            tier = sys.argv[i + 1]
    repo, verif = "/repo", VERIF
    if "--scratch" in sys.argv:
        repo, verif = setup_scratch()
    meta_p = os.path.join(d, "meta.json")
    meta = json.load(open(meta_p)) if os.path.exists(meta_p) else {}
    if checks is None:
        checks = [meta.get("property", "C01")]
    st = subprocess.run(["git", "-C", repo, "status", "--porcelain", "--untracked-files=no"], capture_output=True, text=True).stdout.strip()
    if st:
        print("refusing: " + repo + " has uncommitted changes:\n" + st)
        return 2
    patch = os.path.join(d, "patch.diff")
    p = subprocess.run(["git", "-C", repo, "apply", patch], capture_output=True, text=True)
    if p.returncode != 0:
        # the tree has moved since the change was written (hooks, repairs): same edit, shifted context
        p = subprocess.run(["patch", "-p1", "-F3", "--no-backup-if-mismatch", "-i", patch], cwd=repo, capture_output=True, text=True)
        if p.returncode != 0:
            subprocess.run(["git", "-C", repo, "checkout", "--", "."], check=False)
            print("patch does not apply:", p.stdout[-400:], p.stderr[-400:])
            return 2
        meta["applied_with_fuzz"] = True
    res = {}
    try:
        for c in checks:
            t0 = time.time()
            q = subprocess.run([os.path.join(verif, "check"), c, "--tier", tier], cwd=verif, capture_output=True, text=True,
                               env=dict(os.environ, VERIF_REPO=repo))
            viol = [l for l in q.stdout.splitlines() if l.startswith("VIOLATION") or l.strip().startswith("key=")]
            res[c] = {"rc": q.returncode, "violations": [l.strip()[:200] for l in viol][:12], "wall_s": round(time.time() - t0, 1)}
            print(c, "rc=%d" % q.returncode, "CAUGHT" if q.returncode == 1 else ("tool-error" if q.returncode == 2 else "missed"), res[c]["wall_s"], "s")
            for l in viol[:6]:
                print("   ", l.strip()[:180])
            if q.returncode == 2:
                print(q.stderr[-600:])
    finally:
        subprocess.run(["git", "-C", repo, "checkout", "--", "."], check=False)
        subprocess.run(["git", "-C", repo, "clean", "-fdq", "riscv_analysis/tests", "riscv_analysis_cli/tests"], check=False)
    meta.setdefault("runs", {})
    meta["runs"].update(res)
    meta["caught_by"] = sorted(c for c, r in meta["runs"].items() if r["rc"] == 1)
    json.dump(meta, open(meta_p, "w"), indent=1)
    return 0


if __name__ == "__main__":
    sys.exit(main())
