----------------------------- MODULE Gen_Values -----------------------------
(* spec -> impl generator for the value analysis (C01, reused by C02/C12):   *)
(* straight-line and forward-branching programs over an alphabet that        *)
(* exercises every rule of the available-value analysis: stack pointer       *)
(* arithmetic, spills and reloads (word and byte), constants and folding     *)
(* (boundary operands), register copies, address loads, environment calls    *)
(* with results, calls to a convention-respecting callee, merges.            *)
EXTENDS Integers, Sequences, TLC, Json
CONSTANTS MinN, MaxN
VARIABLES phase, n, ins, kpos, callee, wrapped
vars == <<phase, n, ins, kpos, callee, wrapped>>

Alpha == <<
  "addi sp, sp, -16", "addi sp, sp, 16", "addi sp, sp, -8", "addi sp, sp, 8",
  "sw t0, 0(sp)", "sw s0, 4(sp)", "sw a0, 8(sp)", "sw ra, 12(sp)", "sw s0, 0(sp)",
  "lw t0, 0(sp)", "lw s0, 4(sp)", "lw a0, 8(sp)", "lw ra, 12(sp)", "lw a7, 0(sp)", "lw s0, 0(sp)",
  "sb t0, 0(sp)", "lb t1, 0(sp)", "sw t0, -4(sp)", "lw t1, -4(sp)",
  "sw zero, 0(sp)", "sw zero, 4(sp)", "sw t0, 16(sp)", "sw a0, 16(sp)", "sh t0, 6(sp)", "sb t0, 7(sp)", "lh t1, 4(sp)", "lbu t1, 8(sp)",
  "mv s1, sp", "mv sp, s1", "addi sp, s1, 0", "li a7, 10", "li a7, 93", "ecall", "li t0, 7", "addi t1, t0, 1",
  "li t0, 10", "li t0, -1", "li a0, 2147483647", "li s0, 3", "li a7, 1", "li t1, 5",
  "mv t0, a0", "mv s0, t0", "mv a0, s0", "mv t1, sp",
  "add t0, t0, t1", "sub t1, t0, sp", "sub t1, sp, t0", "addi t0, t0, 1", "addi s0, sp, 4",
  "slli t0, t0, 31", "srai t0, t0, 1", "div t2, zero, zero", "mul t0, t0, t0", "xori t0, t0, -1",
  "lui t0, 524288", "and t1, t0, zero", "neg t1, t0",
  "la t1, D1", "lw t0, 0(t1)", "sw t0, 0(t1)",
  "li a7, 5\n    ecall", "li a7, 1\n    ecall", "li a7, 9\n    ecall",
  \* calls whose number is not in the table or not a constant: a0/a1 are results of the environment afterwards
  "li a7, 51\n    ecall", "mv a7, a0\n    ecall", "li a0, 10", "li a1, 93",
  "li a0, 10\n    li a7, 51\n    ecall\n    mv a7, a0\n    ecall", "li a1, 10\n    lw a7, 0(sp)\n    ecall\n    mv a7, a1\n    ecall",
  "call F", "mv a0, t0\n    call F",
  "beqz t0, K", "bnez a0, K", "j K",
  "jal t1, K", "li t1, 5\n    jal t1, K",
  "bgez t0, K", "bge t0, zero, K", "bltz t0, K", "bgeu t0, zero, K", "bltu zero, t0, K", "ble zero, t0, K" >>
NA == Len(Alpha)

Callees == <<
  "F:\n    addi sp, sp, -8\n    sw s0, 0(sp)\n    li s0, 3\n    add a0, a0, s0\n    lw s0, 0(sp)\n    addi sp, sp, 8\n    ret\n",
  "F:\n    li t0, 99\n    sw t0, -4(sp)\n    li a0, 1\n    ret\n",
  "F:\n    addi sp, sp, -16\n    sw ra, 12(sp)\n    sw s0, 8(sp)\n    mv s0, a0\n    beqz a0, FB\n    addi a0, a0, -1\n    call F\n    add a0, a0, s0\nFB:\n    lw s0, 8(sp)\n    lw ra, 12(sp)\n    addi sp, sp, 16\n    ret\n" >>

RECURSIVE Render(_, _, _)
Render(is, i, k) ==
  (IF k = i THEN "K:\n" ELSE "")
  \o (IF i > Len(is) THEN "" ELSE "    " \o Alpha[is[i]] \o "\n" \o Render(is, i + 1, k))

\* wrapped: the sequence is the body of a function G called from main (saved registers then have a
\* known entry value and the claims about them are judged)
Text(is, k, c, w) ==
  IF w
    THEN ".data\nD1: .word 7\n.text\nmain:\n    li a0, 0\n    li t0, 3\n    call G\n    li a7, 10\n    ecall\nG:\n"
         \o Render(is, 1, k) \o "    ret\n" \o Callees[c]
    ELSE ".data\nD1: .word 7\n.text\nmain:\n" \o Render(is, 1, k) \o "    li a7, 10\n    ecall\n" \o Callees[c]

Init == phase = "start" /\ n = 0 /\ ins = <<>> /\ kpos = 0 /\ callee = 1 /\ wrapped = FALSE
PickN == phase = "start" /\ \E k \in MinN..MaxN, c \in 1..Len(Callees), w \in BOOLEAN :
           n' = k /\ callee' = c /\ wrapped' = w /\ phase' = "ins" /\ UNCHANGED <<ins, kpos>>
PickI == /\ phase = "ins" /\ Len(ins) < n
         /\ \E a \in 1..NA : ins' = Append(ins, a)
         /\ UNCHANGED <<phase, n, kpos, callee, wrapped>>
EndI  == /\ phase = "ins" /\ Len(ins) = n
         /\ \E k \in 2..(n + 1) : kpos' = k      \* K is always defined, after the first instruction
         /\ phase' = "emit" /\ UNCHANGED <<n, ins, callee, wrapped>>
Emit  == /\ phase = "emit"
         /\ PrintT("CASE " \o ToJson([text |-> Text(ins, kpos, callee, wrapped), n |-> n, kpos |-> kpos, callee |-> callee, wrapped |-> wrapped,
                                      syms |-> [i \in 1..Len(ins) |-> Alpha[ins[i]]]]))
         /\ phase' = "done" /\ UNCHANGED <<n, ins, kpos, callee, wrapped>>
Next == PickN \/ PickI \/ EndI \/ Emit
Spec == Init /\ [][Next]_vars
=============================================================================
