"""C13 — diagnostics do not depend on how the same program is written."""
import os
from vlib import *
import absprog

PID = "C13"
NAMES = list(absprog.PROGRAMS)


def observe_pairs(rvh, wd, pairs, name):
    hc = []
    for i, (ta, tb) in enumerate(pairs):
        hc.append({"id": 2 * i + 1, "mode": "observe", "text": ta, "want": ["nodes", "errors", "lints"]})
        hc.append({"id": 2 * i + 2, "mode": "observe", "text": tb, "want": ["nodes", "errors", "lints"]})
    tp, evs = run_harness_par(rvh, hc, wd, name)
    res = []
    for i in range(len(pairs)):
        side = []
        for e in (evs[2 * i], evs[2 * i + 1]):
            side.append({"ev": e["ev"], "sigs": absprog.node_sigs(e), "diags": absprog.diag_triples(e) if e["ev"] == "obs" else []})
        res.append(side)
    return res


def run(tier, replay=None):
    out = Outcome(PID, tier)
    wd = os.path.join(WORK, PID)
    rvh = build_harness()
    cases, gres = tlc_generate("Gen_Rewrite", cfg="Gen_Rewrite" if tier == "quick" else "Gen_Rewrite4", heap="8g", timeout=3000)
    out.add_tlc(gres)
    if tier == "thorough" and len(cases) > 60000:
        r = rng("c13")
        cases = r.sample(cases, 60000)
    if replay:
        cases = [json.load(open(replay))["witness"]["case"]]
    pairs = []
    for c in cases:
        prog = absprog.PROGRAMS[NAMES[c["prog"] - 1]]
        pairs.append((absprog.render(prog), absprog.render(prog, c["style"])))
    obs = observe_pairs(rvh, wd, pairs, "rw")
    evs = []
    IMPLICIT = {"nop", "ret", "j", "call", "jal", "jalr", "beqz", "bnez", "li", "mv", "not", "neg", "seqz", "ble"}
    for i, (c, (a, b)) in enumerate(zip(cases, obs)):
        if c["style"]["pseudo"] != "keep":
            # a pseudo-instruction has operands without text of their own (x0 of nop, ra of ret, ...):
            # for the statements that were expanded only (kind, instruction) is compared
            prog = absprog.PROGRAMS[NAMES[c["prog"] - 1]]
            imp = {k for k, st in enumerate(prog) if st["mn"] in IMPLICIT}
            for side in (a, b):
                side["diags"] = sorted([d[0], d[1], "*"] if d[1] in imp else d for d in side["diags"])
        active = sorted(k + "=" + v for k, v in c["style"].items() if k != "sites" and v not in
                        ("comma", "spaces", "none", "lower", "abi", "dec", "own-line", "keep"))
        evs.append({"id": i + 1, "prop": "C13", "a": a, "b": b, "pseudo": c["style"]["pseudo"] != "keep",
                    "what": "+".join(active), "rfrom": [], "rto": [], "lfrom": [], "lto": [], "ofrom": [], "oto": []})
    v, ress = validate_chunks("Trace_Rel", evs, wd, "rel.chunk", chunk=4000, heap="8g")
    for r in ress:
        out.add_tlc(r)
    for x in v:
        x["case"] = cases[x["id"] - 1]
        x["original"], x["rewritten"] = pairs[x["id"] - 1]
    out.add_verdicts(v)
    out.cov["traces_validated_against_impl"] = len(evs)
    out.sample({"style": cases[0]["style"], "rewritten": pairs[0][1][:400]})
    out.sample({"style": cases[-1]["style"], "rewritten": pairs[-1][1][:400]})
    out.assumptions += [
        "the renderer (lib/absprog.py) is trusted to apply each rewrite; that a rewrite preserved the meaning is re-checked per pair on the parsed instruction sequences (equal node by node, pseudo-expansions by ISA!Equivalent)",
        "diagnostics are compared as multisets of (kind, instruction index, operand), operands by register number / role",
        "character immediates only for printable ASCII values other than quotes and backslash",
        "for statements rewritten between pseudo and base form only (kind, instruction) is compared: implicit operands (x0 of nop, ra of ret) have no text of their own in one of the spellings",
    ]
    return out.finish(extra_cov={
        "pairs": len(pairs), "base_programs": len(NAMES), "exhaustive": tier == "quick" or len(cases) < 60000,
        "evaluations": 2 * len(pairs), "distinct_nontrivial": len({p[1] for p in pairs}),
        "rule": "Gen_Rewrite: all compositions of <= 2 (quick) / <= 4 (thorough) rewrites out of 10 dimensions (separators, indentation, comments, blank lines, mnemonic case, register names, immediate notation, label placement, omitted zero offset, pseudo expansion) x {every site, every other site} x 6 base programs (clean, violating, all 32 registers, alias labels)",
    })
