------------------------------- MODULE CfgRef -------------------------------
(***************************************************************************)
(* Reference: what the control-flow graph, the function table and the      *)
(* analysis failures of a program must look like (C03, C11, C16), stated   *)
(* over the projected node list of the implementation's Cfg:               *)
(*   cfg.nodes[i] = [node, labels, nexts, prevs, funcs, rin, ...]          *)
(*   cfg.funcs[k] = [label, entry, exit, nodes, ...]                       *)
(***************************************************************************)
EXTENDS Integers, Sequences, FiniteSets, TLC

SeqSet(s) == { s[i] : i \in 1..Len(s) }

\* ------------------------------------------------------------ node classes
Kind(n) ==
  CASE n.k = "ProgramEntry" -> "entry"
    [] n.k = "FuncEntry"    -> "fentry"
    [] n.k = "Branch"       -> "branch"
    [] n.k = "JumpLink" /\ n.lab = "<return>" -> "merge"
    [] n.k = "JumpLink" /\ n.rd = 0 -> "jump"
    [] n.k = "JumpLink" /\ n.rd = 1 -> "call"
    [] n.k = "JumpLink"     -> "linkjump"
    [] n.k = "JumpLinkR" /\ n.rd = 0 /\ n.rs1 = 1 /\ n.imm = 0 -> "ret"
    [] n.k = "JumpLinkR"    -> "indirect"
    [] n.k = "Basic" /\ n.op = "uret"  -> "ret"
    [] n.k = "Basic" /\ n.op = "ecall" -> "ecall"
    [] OTHER -> "plain"

AlwaysTaken(n) == n.k = "Branch" /\ n.rs1 = 0 /\ n.rs2 = 0 /\ n.op \in {"beq", "bge", "bgeu"}

\* value the analyzer claims for register r before node x ("" record when none)
RegIn(x, r) ==
  LET idx == {i \in 1..Len(x.rin) : x.rin[i].reg = r} IN
  IF idx = {} THEN [t |-> "none", r |-> -1, n |-> 0, s |-> ""] ELSE x.rin[CHOOSE i \in idx : TRUE].v
NonExitEcall(x) == Kind(x.node) = "ecall" /\ RegIn(x, 17).t = "c" /\ RegIn(x, 17).n \notin {10, 93}
IsExitEcall(x) == Kind(x.node) = "ecall" /\ RegIn(x, 17).t = "c" /\ RegIn(x, 17).n \in {10, 93}

\* node index carrying label L (0 if none)
Target(cfg, L) ==
  LET idx == {i \in 1..Len(cfg.nodes) : L \in SeqSet(cfg.nodes[i].labels)} IN
  IF idx = {} THEN 0 ELSE CHOOSE i \in idx : TRUE

NN(cfg) == Len(cfg.nodes)
Succ(cfg, a) == IF a < NN(cfg) THEN {a + 1} ELSE {}

\* edges that must exist when a is reachable / edges that may exist
Must(cfg, a) ==
  LET x == cfg.nodes[a] k == Kind(x.node) IN
  CASE k \in {"entry", "fentry", "plain", "call"} -> Succ(cfg, a)
    [] k = "branch" -> {Target(cfg, x.node.lab)} \cup (IF AlwaysTaken(x.node) THEN {} ELSE Succ(cfg, a))
    [] k = "jump"   -> {Target(cfg, x.node.lab)}
    \* required only after an ecall whose number the analyzer itself claims to be a constant other than 10 / 93
    \* (claims are C01's business); when it claims nothing about a7 the static reading requires nothing - whether an
    \* executed transfer is an edge is then the machine's judgement (Machine!EdgeCheck)
    [] k = "ecall"  -> IF NonExitEcall(x) THEN Succ(cfg, a) ELSE {}
    [] OTHER -> {}          \* ret, merge, indirect, linkjump: nothing required

FuncExits(cfg) == { cfg.funcs[k].exit : k \in 1..Len(cfg.funcs) }
\* the edges the text of a statement allows (an additional return has none of its own)
Written(cfg, a) ==
  LET x == cfg.nodes[a] k == Kind(x.node) IN
  CASE k = "branch" -> {Target(cfg, x.node.lab)} \cup Succ(cfg, a)
    [] k = "linkjump" -> {Target(cfg, x.node.lab)} \cup Succ(cfg, a)
    [] k = "ecall"  -> IF IsExitEcall(x) THEN {} ELSE Succ(cfg, a)
    [] k \in {"entry", "fentry", "plain", "call"} -> Succ(cfg, a)
    [] k = "jump"   -> {Target(cfg, x.node.lab)}
    [] OTHER -> {}
\* what a function entry reaches along written edges - read off the statements, not the analyzer's function table.
\* Other additional returns on the way count with the return they were merged into (a function may reach its exit
\* only through a return that another function has already merged); the merge edge being judged (skip) does not.
WStep(cfg, a, skip) ==
  IF Kind(cfg.nodes[a].node) = "merge" /\ a # skip
    THEN { e \in SeqSet(cfg.nodes[a].nexts) : Kind(cfg.nodes[e].node) = "ret" }
    ELSE Written(cfg, a) \ {0}
RECURSIVE WClosure(_, _, _, _)
WClosure(cfg, skip, frontier, seen) ==
  IF frontier = {} THEN seen
  ELSE LET new == (UNION { WStep(cfg, a, skip) : a \in frontier }) \ seen IN WClosure(cfg, skip, new, seen \cup new)
WrittenBody(cfg, entry, skip) == WClosure(cfg, skip, {entry}, {entry})
FuncEntries(cfg) == { i \in 1..Len(cfg.nodes) : Kind(cfg.nodes[i].node) = "fentry" }
May(cfg, a) ==
  LET x == cfg.nodes[a] k == Kind(x.node) IN
  CASE k = "branch" -> {Target(cfg, x.node.lab)} \cup Succ(cfg, a)
    \* the merge of an additional return into the exit of a function: both are returns that the function's entry
    \* reaches along written edges
    [] k = "merge"  -> { e \in FuncExits(cfg) : \E en \in FuncEntries(cfg) :
                           LET b == WrittenBody(cfg, en, a) IN a \in b /\ e \in b /\ Kind(cfg.nodes[e].node) = "ret" }
    [] k = "linkjump" -> {Target(cfg, x.node.lab)} \cup Succ(cfg, a)
    [] k = "ecall"  -> IF IsExitEcall(x) THEN {} ELSE Succ(cfg, a)       \* edges stop at exit ecalls
    [] OTHER -> Must(cfg, a)

\* reference reachability: from the program entry along Must edges and calls
CallTarget(cfg, a) ==
  LET x == cfg.nodes[a] IN IF Kind(x.node) = "call" THEN {Target(cfg, x.node.lab)} \ {0} ELSE {}
\* installation of an interrupt handler: `la r, L` immediately followed by `csrrw x0, utvec, r`
InstallsHandler(cfg, a) ==
  /\ a < NN(cfg)
  /\ cfg.nodes[a].node.k = "LoadAddr"
  /\ LET c == cfg.nodes[a + 1].node IN c.k = "Csr" /\ c.op = "csrrw" /\ c.csr = 5 /\ c.rs1 = cfg.nodes[a].node.rd
HandlerLabels(cfg) == { cfg.nodes[a].node.lab : a \in { i \in 1..NN(cfg) : InstallsHandler(cfg, i) } }
HandlerTarget(cfg, a) == IF InstallsHandler(cfg, a) THEN {Target(cfg, cfg.nodes[a].node.lab)} \ {0} ELSE {}
RECURSIVE Closure(_, _, _)
Closure(step(_), frontier, seen) ==
  IF frontier = {} THEN seen
  ELSE LET new == (UNION { step(a) : a \in frontier }) \ seen IN Closure(step, new, seen \cup new)
RefReach(cfg) ==
  LET step(a) == (Must(cfg, a) \ {0}) \cup CallTarget(cfg, a) \cup HandlerTarget(cfg, a) IN Closure(step, {1}, {1})
\* reachability along the observed edges
ObsReach(cfg, from) ==
  LET step(a) == SeqSet(cfg.nodes[a].nexts) IN Closure(step, {from}, {from})

\* domain of C03: direct control flow only, no path runs off the end of the file
Kinds(cfg) == { Kind(cfg.nodes[i].node) : i \in 1..NN(cfg) }
InC03Domain(cfg) ==
  /\ Kinds(cfg) \cap {"indirect", "linkjump"} = {}
  /\ LET last == cfg.nodes[NN(cfg)] IN
       NN(cfg) \notin RefReach(cfg) \/ Kind(last.node) \in {"ret", "jump", "merge"} \/ IsExitEcall(last)
          \/ (Kind(last.node) = "branch" /\ AlwaysTaken(last.node))
=============================================================================
