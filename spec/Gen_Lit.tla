------------------------------ MODULE Gen_Lit ------------------------------
(* spec -> impl generator for numeric literals (C17): boundary magnitudes    *)
(* (as 16-bit limbs <<hi, lo>>, so that 2^32 and 2^33 are representable) x   *)
(* notation x sign x letter case x leading zero x context.  The spelling is  *)
(* produced here; the judge (Trace_Lit) re-reads it with Text!Denote.        *)
EXTENDS Integers, Sequences, TLC, Json
VARIABLES phase, mag, notation, neg, upper, lead0, ctx
vars == <<phase, mag, notation, neg, upper, lead0, ctx>>

Mags == { <<0, 0>>, <<0, 1>>, <<0, 9>>, <<0, 10>>, <<0, 255>>, <<0, 2047>>, <<0, 2048>>, <<0, 4095>>, <<0, 4096>>,
          <<0, 43981>>, <<7, 65535>>, <<8, 0>>, <<15, 65535>>, <<16, 0>>, <<16, 1>>, <<4660, 22136>>,
          <<32767, 65535>>, <<32768, 0>>, <<32768, 1>>, <<43690, 43690>>, <<65535, 65535>>,
          <<65536, 0>>, <<65536, 1>>, <<131072, 0>> }
Notations == {"dec", "hex", "bin"}
Ctxs == {"li", "addi", "lw", "word", "csr", "lui"}

DL == <<"0","1","2","3","4","5","6","7","8","9","a","b","c","d","e","f">>
DU == <<"0","1","2","3","4","5","6","7","8","9","A","B","C","D","E","F">>
Dg(u, d) == IF u THEN DU[d + 1] ELSE DL[d + 1]

RECURSIVE Based(_, _, _)
Based(n, b, u) == IF n < b THEN Dg(u, n) ELSE Based(n \div b, b, u) \o Dg(u, n % b)
RECURSIVE Padded(_, _, _, _)
Padded(n, b, u, w) == IF w = 0 THEN "" ELSE Padded(n \div b, b, u, w - 1) \o Dg(u, n % b)

HexOf(m, u) == IF m[1] = 0 THEN Based(m[2], 16, u) ELSE Based(m[1], 16, u) \o Padded(m[2], 16, u, 4)
BinOf(m)    == IF m[1] = 0 THEN Based(m[2], 2, FALSE) ELSE Based(m[1], 2, FALSE) \o Padded(m[2], 2, FALSE, 16)
RECURSIVE DecOf(_)
DecOf(m) ==
  IF m[1] = 0 /\ m[2] < 10 THEN DL[m[2] + 1]
  ELSE LET qh == m[1] \div 10
           t  == (m[1] % 10) * 65536 + m[2]
       IN DecOf(<<qh, t \div 10>>) \o DL[(t % 10) + 1]

Spell(m, nt, ng, u, z) ==
  (IF ng THEN "-" ELSE "") \o
  (CASE nt = "dec" -> (IF z THEN "0" ELSE "") \o DecOf(m)
     [] nt = "hex" -> (IF u THEN "0X" ELSE "0x") \o (IF z THEN "0" ELSE "") \o HexOf(m, u)
     [] nt = "bin" -> (IF u THEN "0B" ELSE "0b") \o (IF z THEN "0" ELSE "") \o BinOf(m))

Line(c, lit) ==
  CASE c = "li"   -> "li a0, " \o lit
    [] c = "addi" -> "addi a0, a1, " \o lit
    [] c = "lw"   -> "lw a0, " \o lit \o "(sp)"
    [] c = "word" -> ".word " \o lit
    [] c = "csr"  -> "csrr t0, " \o lit
    [] c = "lui"  -> "lui a0, " \o lit

Init == phase = "start" /\ mag = <<0, 0>> /\ notation = "" /\ neg = FALSE /\ upper = FALSE /\ lead0 = FALSE /\ ctx = ""
PickMag == phase = "start" /\ \E m \in Mags : mag' = m /\ phase' = "mag" /\ UNCHANGED <<notation, neg, upper, lead0, ctx>>
PickNot == phase = "mag" /\ \E n \in Notations, s \in BOOLEAN :
             notation' = n /\ neg' = s /\ phase' = "not" /\ UNCHANGED <<mag, upper, lead0, ctx>>
PickSty == phase = "not" /\ \E u \in BOOLEAN, z \in BOOLEAN :
             /\ (notation = "dec" => ~u)
             /\ upper' = u /\ lead0' = z /\ phase' = "sty" /\ UNCHANGED <<mag, notation, neg, ctx>>
Emit == /\ phase = "sty"
        /\ \E c \in Ctxs :
             /\ ctx' = c
             /\ LET lit == Spell(mag, notation, neg, upper, lead0) IN
                PrintT("CASE " \o ToJson([hi |-> mag[1], lo |-> mag[2], notation |-> notation, neg |-> neg,
                                          upper |-> upper, lead0 |-> lead0, ctx |-> c, lit |-> lit,
                                          line |-> Line(c, lit), kind |-> "num"]))
        /\ phase' = "done" /\ UNCHANGED <<mag, notation, neg, upper, lead0>>
Next == PickMag \/ PickNot \/ PickSty \/ Emit
Spec == Init /\ [][Next]_vars
=============================================================================
