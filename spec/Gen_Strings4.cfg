CONSTANTS MaxLen = 4
          NSym = 26
INIT Init
NEXT Next
CHECK_DEADLOCK FALSE
