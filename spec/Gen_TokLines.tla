---------------------------- MODULE Gen_TokLines ----------------------------
(* spec -> impl generator for C07 (also C06, C09): EVERY sequence of up to    *)
(* MaxLen tokens over a small alphabet of token classes (mnemonics, register, *)
(* immediate, unknown word, label definition, parentheses, comma, stray       *)
(* character, directive, comment) as the middle line of a three-line file,    *)
(* and as its last line with and without a final newline; with the            *)
(* line-deleted twin.  Whatever the line is - a statement, the beginning of   *)
(* one, several statements, junk - it must be accounted for and must not      *)
(* change what the other lines yield (Trace_Lines, Trace_ParseLoop).          *)
EXTENDS Integers, Sequences, TLC, Json
CONSTANT MaxLen
VARIABLES phase, toks, place
vars == <<phase, toks, place>>

Alpha == << "addi", "lw", "a0", "5", "foo", "lab:", "(", ")", ",", "@", ".word", "# c" >>
NA == Len(Alpha)
RECURSIVE Spell(_, _)
Spell(ts, i) == IF i > Len(ts) THEN "" ELSE (IF i > 1 THEN " " ELSE "") \o Alpha[ts[i]] \o Spell(ts, i + 1)
Before == "addi a0, a0, 1"
After  == "mv t2, a0"

Init == phase = "tokens" /\ toks = <<>> /\ place = ""
Add  == /\ phase = "tokens" /\ Len(toks) < MaxLen
        /\ \E a \in 1..NA : toks' = Append(toks, a)
        /\ UNCHANGED <<phase, place>>
Emit == /\ phase = "tokens" /\ Len(toks) >= 1
        /\ \E p \in {"middle", "last", "last-nofinal"} :
             /\ place' = p
             /\ LET ln == Spell(toks, 1)
                    full == CASE p = "middle" -> Before \o "\n" \o ln \o "\n" \o After \o "\n"
                              [] p = "last" -> Before \o "\n" \o After \o "\n" \o ln \o "\n"
                              [] OTHER -> Before \o "\n" \o After \o "\n" \o ln
                    twin == CASE p = "middle" -> Before \o "\n" \o After \o "\n"
                              [] p = "last" -> Before \o "\n" \o After \o "\n"
                              [] OTHER -> Before \o "\n" \o After
                IN PrintT("CASE " \o ToJson([text |-> full, twin |-> twin, badline |-> (IF p = "middle" THEN 1 ELSE 2),
                                             fault |-> "tokens-" \o p, ending |-> (IF p = "last-nofinal" THEN "lf-nofinal" ELSE "lf"), nl |-> 3,
                                             toks |-> [i \in 1..Len(toks) |-> Alpha[toks[i]]]]))
        /\ phase' = "done" /\ UNCHANGED toks
Next == Add \/ Emit
Spec == Init /\ [][Next]_vars
=============================================================================
