-------------------------------- MODULE ISA --------------------------------
(***************************************************************************)
(* Reference: RV32IM assembly — abstract syntax, the decode table (which   *)
(* instruction a line of text denotes), the official pseudo-instruction    *)
(* expansions, architectural read/write sets and an executable semantics   *)
(* of single instructions.                                                 *)
(*                                                                         *)
(* "Node format" is the abstract syntax shared by the specification and    *)
(* the projection of the implementation's ParserNode:                      *)
(*   [k, op, rd, rs1, rs2, imm, lab, csr]                                  *)
(* k   : "Arith" "IArith" "JumpLink" "JumpLinkR" "Branch" "Load" "Store"   *)
(*       "LoadAddr" "Csr" "CsrI" "Basic"                                   *)
(* op  : base mnemonic (lower case); "la" for LoadAddr                     *)
(* regs: 0..31, -1 when the kind has no such operand                       *)
(* imm : a word; for lui the value already shifted left by 12 (the value   *)
(*       the instruction puts into rd) — deliberate convention of the      *)
(*       implementation, kept so that both sides execute the same record   *)
(***************************************************************************)
EXTENDS Words, Sequences, FiniteSets, TLC

Regs == 0..31
RegName ==
  [r \in Regs |->
     CASE r = 0 -> "zero" [] r = 1 -> "ra" [] r = 2 -> "sp" [] r = 3 -> "gp" [] r = 4 -> "tp"
       [] r = 5 -> "t0" [] r = 6 -> "t1" [] r = 7 -> "t2" [] r = 8 -> "s0" [] r = 9 -> "s1"
       [] r = 10 -> "a0" [] r = 11 -> "a1" [] r = 12 -> "a2" [] r = 13 -> "a3" [] r = 14 -> "a4"
       [] r = 15 -> "a5" [] r = 16 -> "a6" [] r = 17 -> "a7" [] r = 18 -> "s2" [] r = 19 -> "s3"
       [] r = 20 -> "s4" [] r = 21 -> "s5" [] r = 22 -> "s6" [] r = 23 -> "s7" [] r = 24 -> "s8"
       [] r = 25 -> "s9" [] r = 26 -> "s10" [] r = 27 -> "s11" [] r = 28 -> "t3" [] r = 29 -> "t4"
       [] r = 30 -> "t5" [] r = 31 -> "t6"]
XName == [r \in Regs |-> "x" \o ToString(r)]

\* convention classes
TempRegs   == {5, 6, 7, 28, 29, 30, 31}
SavedRegs  == {8, 9} \cup (18..27)
ArgRegs    == 10..17
CalleeSaved == SavedRegs \cup {2}          \* + sp; ra is restored by convention as well
CallerSaved == TempRegs \cup ArgRegs \cup {1}

N(k, op, rd, rs1, rs2, imm, lab, csr) ==
  [k |-> k, op |-> op, rd |-> rd, rs1 |-> rs1, rs2 |-> rs2, imm |-> imm, lab |-> lab, csr |-> csr]

NArith(op, rd, rs1, rs2)  == N("Arith", op, rd, rs1, rs2, 0, "", -1)
NIArith(op, rd, rs1, imm) == N("IArith", op, rd, rs1, -1, imm, "", -1)
NJal(rd, lab)             == N("JumpLink", "jal", rd, -1, -1, 0, lab, -1)
NJalr(rd, rs1, imm)       == N("JumpLinkR", "jalr", rd, rs1, -1, imm, "", -1)
NBranch(op, rs1, rs2, lab) == N("Branch", op, -1, rs1, rs2, 0, lab, -1)
NLoad(op, rd, rs1, imm)   == N("Load", op, rd, rs1, -1, imm, "", -1)
NStore(op, rs1, rs2, imm) == N("Store", op, -1, rs1, rs2, imm, "", -1)
NLa(rd, lab)              == N("LoadAddr", "la", rd, -1, -1, 0, lab, -1)
NCsr(op, rd, csr, rs1)    == N("Csr", op, rd, rs1, -1, 0, "", csr)
NCsrI(op, rd, csr, imm)   == N("CsrI", op, rd, -1, -1, imm, "", csr)
NBasic(op)                == N("Basic", op, -1, -1, -1, 0, "", -1)

\* projection of an observed node record (harness JSON) onto node format
Norm(n) ==
  LET k == n.k IN
  CASE k = "Arith"     -> NArith(n.op, n.rd, n.rs1, n.rs2)
    [] k = "IArith"    -> NIArith(n.op, n.rd, n.rs1, n.imm)
    [] k = "JumpLink"  -> NJal(n.rd, n.lab)
    [] k = "JumpLinkR" -> NJalr(n.rd, n.rs1, n.imm)
    [] k = "Branch"    -> NBranch(n.op, n.rs1, n.rs2, n.lab)
    [] k = "Load"      -> NLoad(n.op, n.rd, n.rs1, n.imm)
    [] k = "Store"     -> NStore(n.op, n.rs1, n.rs2, n.imm)
    [] k = "LoadAddr"  -> NLa(n.rd, n.lab)
    [] k = "Csr"       -> NCsr(n.op, n.rd, n.csr, n.rs1)
    [] k = "CsrI"      -> NCsrI(n.op, n.rd, n.csr, n.imm)
    [] k = "Basic"     -> NBasic(n.op)
    [] OTHER           -> N(k, "", -1, -1, -1, 0, "", -1)

---------------------------------------------------------------------------
\* mnemonic classes
ArithOps32 == {"add", "sub", "sll", "slt", "sltu", "xor", "srl", "sra", "or", "and",
               "mul", "mulh", "mulhsu", "mulhu", "div", "divu", "rem", "remu"}
ArithOps64 == {"addw", "sllw", "srlw", "sraw", "divw", "remw", "remuw"}   \* RV64 forms the parser accepts
ArithOps   == ArithOps32 \cup ArithOps64
IArithOps32 == {"addi", "slti", "sltiu", "xori", "ori", "andi", "slli", "srli", "srai"}
IArithOps64 == {"addiw", "slliw", "srliw", "sraiw"}
IArithOps  == IArithOps32 \cup IArithOps64
LoadOps    == {"lb", "lbu", "lh", "lhu", "lw"}
LoadOps64  == {"lwu"}
StoreOps   == {"sb", "sh", "sw"}
BranchOps  == {"beq", "bne", "blt", "bge", "bltu", "bgeu"}
CsrOps     == {"csrrw", "csrrs", "csrrc"}
CsrIOps    == {"csrrwi", "csrrsi", "csrrci"}
BasicOps   == {"ecall", "ebreak", "uret"}
PseudoOps  == {"nop", "li", "mv", "neg", "not", "seqz", "snez", "sltz", "sgtz",
               "beqz", "bnez", "blez", "bgez", "bltz", "bgtz", "bgt", "ble", "bgtu", "bleu",
               "j", "b", "jr", "ret", "call", "la",
               "csrr", "csrw", "csrs", "csrc", "csrwi", "csrsi", "csrci"}

\* base op of an immediate form
IBase(op) ==
  CASE op = "addi" -> "add" [] op = "slti" -> "slt" [] op = "sltiu" -> "sltu"
    [] op = "xori" -> "xor" [] op = "ori" -> "or" [] op = "andi" -> "and"
    [] op = "slli" -> "sll" [] op = "srli" -> "srl" [] op = "srai" -> "sra"

---------------------------------------------------------------------------
(* The decode table.  An operand choice is a record                        *)
(*   o = [rd, rs1, rs2, imm, lab, csr]                                     *)
(* and a "form" names the operand syntax.  RefDecode gives the node-format *)
(* sequence the RISC-V assembly manual assigns to the text (for pseudo-    *)
(* instructions: the official expansion, with auipc-based pairs written as *)
(* the single node they are equivalent to: call = jal ra, la = LoadAddr,   *)
(* li = rd := imm).                                                        *)
(***************************************************************************)
Forms(mn) ==
  CASE mn \in ArithOps  -> {"rd,rs1,rs2"}
    [] mn \in IArithOps -> {"rd,rs1,imm"}
    [] mn \in {"lui", "auipc"} -> {"rd,imm20"}
    [] mn = "jal"  -> {"lab", "rd,lab"}
    [] mn = "jalr" -> {"rs", "rd,rs,imm", "rd,imm(rs)", "rd,(rs)", "rs,imm"}
    [] mn \in LoadOps \cup LoadOps64 -> {"rd,imm(rs)", "rd,(rs)", "rd,lab", "rd,imm"}
    [] mn \in StoreOps -> {"rs2,imm(rs1)", "rs2,(rs1)", "rs2,lab,tmp", "rs2,imm", "rs2,imm,tmp"}
    [] mn \in BranchOps -> {"rs1,rs2,lab"}
    [] mn \in CsrOps   -> {"rd,csr,rs1"}
    [] mn \in CsrIOps  -> {"rd,csr,uimm"}
    [] mn \in BasicOps \cup {"nop", "ret"} -> {""}
    [] mn = "li" -> {"rd,imm32"}
    [] mn \in {"mv", "neg", "not", "seqz", "snez", "sltz", "sgtz"} -> {"rd,rs"}
    [] mn \in {"beqz", "bnez", "blez", "bgez", "bltz", "bgtz"} -> {"rs,lab"}
    [] mn \in {"bgt", "ble", "bgtu", "bleu"} -> {"rs1,rs2,lab"}
    [] mn \in {"j", "b", "call"} -> {"lab"}
    [] mn = "jr" -> {"rs"}
    [] mn = "la" -> {"rd,lab"}
    [] mn = "csrr" -> {"rd,csr"}
    [] mn \in {"csrw", "csrs", "csrc"} -> {"csr,rs", "rs,csr"}   \* manual order, RARS order
    [] mn \in {"csrwi", "csrsi", "csrci"} -> {"csr,uimm"}

Mnemonics == ArithOps \cup IArithOps \cup {"lui", "auipc", "jal", "jalr"} \cup LoadOps \cup LoadOps64
             \cup StoreOps \cup BranchOps \cup CsrOps \cup CsrIOps \cup BasicOps \cup PseudoOps

RefDecode(mn, form, o) ==
  CASE mn \in ArithOps  -> << NArith(mn, o.rd, o.rs1, o.rs2) >>
    [] mn \in IArithOps -> << NIArith(mn, o.rd, o.rs1, o.imm) >>
    [] mn = "lui"   -> << NIArith("lui", o.rd, 0, SllW(o.imm, 12)) >>
    [] mn = "auipc" -> << NIArith("auipc", o.rd, 0, SllW(o.imm, 12)) >>
    [] mn = "jal"   -> << NJal(IF form = "lab" THEN 1 ELSE o.rd, o.lab) >>
    [] mn = "jalr"  ->
         IF form = "rs" THEN << NJalr(1, o.rs1, 0) >>
         ELSE IF form = "rs,imm" THEN << NJalr(1, o.rs1, o.imm) >>      \* link register implied like in `jalr rs`
         ELSE IF form = "rd,(rs)" THEN << NJalr(o.rd, o.rs1, 0) >>
         ELSE << NJalr(o.rd, o.rs1, o.imm) >>
    [] mn \in LoadOps \cup LoadOps64 ->
         IF form = "rd,lab" THEN << NLa(o.rd, o.lab), NLoad(mn, o.rd, o.rd, 0) >>
         ELSE IF form = "rd,(rs)" THEN << NLoad(mn, o.rd, o.rs1, 0) >>
         ELSE IF form = "rd,imm" THEN << NLoad(mn, o.rd, 0, o.imm) >>   \* absolute address: base x0
         ELSE << NLoad(mn, o.rd, o.rs1, o.imm) >>
    [] mn \in StoreOps ->
         IF form = "rs2,lab,tmp" THEN << NLa(o.rd, o.lab), NStore(mn, o.rd, o.rs2, 0) >>
         ELSE IF form = "rs2,(rs1)" THEN << NStore(mn, o.rs1, o.rs2, 0) >>
         ELSE IF form = "rs2,imm" THEN << NStore(mn, 0, o.rs2, o.imm) >>
         ELSE IF form = "rs2,imm,tmp" THEN << NIArith("addi", o.rd, 0, o.imm), NStore(mn, o.rd, o.rs2, 0) >>
         ELSE << NStore(mn, o.rs1, o.rs2, o.imm) >>
    [] mn \in BranchOps -> << NBranch(mn, o.rs1, o.rs2, o.lab) >>
    [] mn \in CsrOps    -> << NCsr(mn, o.rd, o.csr, o.rs1) >>
    [] mn \in CsrIOps   -> << NCsrI(mn, o.rd, o.csr, o.imm) >>
    [] mn \in BasicOps  -> << NBasic(mn) >>
    \* pseudo-instructions: official expansions
    [] mn = "nop"  -> << NIArith("addi", 0, 0, 0) >>
    [] mn = "li"   -> << NIArith("addi", o.rd, 0, o.imm) >>
    [] mn = "mv"   -> << NIArith("addi", o.rd, o.rs1, 0) >>
    [] mn = "neg"  -> << NArith("sub", o.rd, 0, o.rs1) >>
    [] mn = "not"  -> << NIArith("xori", o.rd, o.rs1, -1) >>
    [] mn = "seqz" -> << NIArith("sltiu", o.rd, o.rs1, 1) >>
    [] mn = "snez" -> << NArith("sltu", o.rd, 0, o.rs1) >>
    [] mn = "sltz" -> << NArith("slt", o.rd, o.rs1, 0) >>
    [] mn = "sgtz" -> << NArith("slt", o.rd, 0, o.rs1) >>
    [] mn = "beqz" -> << NBranch("beq", o.rs1, 0, o.lab) >>
    [] mn = "bnez" -> << NBranch("bne", o.rs1, 0, o.lab) >>
    [] mn = "blez" -> << NBranch("bge", 0, o.rs1, o.lab) >>
    [] mn = "bgez" -> << NBranch("bge", o.rs1, 0, o.lab) >>
    [] mn = "bltz" -> << NBranch("blt", o.rs1, 0, o.lab) >>
    [] mn = "bgtz" -> << NBranch("blt", 0, o.rs1, o.lab) >>
    [] mn = "bgt"  -> << NBranch("blt", o.rs2, o.rs1, o.lab) >>
    [] mn = "ble"  -> << NBranch("bge", o.rs2, o.rs1, o.lab) >>
    [] mn = "bgtu" -> << NBranch("bltu", o.rs2, o.rs1, o.lab) >>
    [] mn = "bleu" -> << NBranch("bgeu", o.rs2, o.rs1, o.lab) >>
    [] mn \in {"j", "b"} -> << NJal(0, o.lab) >>
    [] mn = "jr"   -> << NJalr(0, o.rs1, 0) >>
    [] mn = "ret"  -> << NJalr(0, 1, 0) >>
    [] mn = "call" -> << NJal(1, o.lab) >>
    [] mn = "la"   -> << NLa(o.rd, o.lab) >>
    [] mn = "csrr" -> << NCsr("csrrs", o.rd, o.csr, 0) >>
    [] mn = "csrw" -> << NCsr("csrrw", 0, o.csr, o.rs1) >>
    [] mn = "csrs" -> << NCsr("csrrs", 0, o.csr, o.rs1) >>
    [] mn = "csrc" -> << NCsr("csrrc", 0, o.csr, o.rs1) >>
    [] mn = "csrwi" -> << NCsrI("csrrwi", 0, o.csr, o.imm) >>
    [] mn = "csrsi" -> << NCsrI("csrrsi", 0, o.csr, o.imm) >>
    [] mn = "csrci" -> << NCsrI("csrrci", 0, o.csr, o.imm) >>

IsPseudo(mn) == mn \in PseudoOps

---------------------------------------------------------------------------
\* architectural register reads / writes of a node (x0 excluded: reading it
\* yields 0 and writing it has no effect)
ArchReads(n) ==
  (CASE n.k \in {"Arith", "Branch", "Store"} -> {n.rs1, n.rs2}
     [] n.k \in {"IArith", "JumpLinkR", "Load", "Csr"} -> {n.rs1}
     [] OTHER -> {}) \ {0, -1}
ArchWrites(n) ==
  (CASE n.k \in {"Arith", "IArith", "JumpLink", "JumpLinkR", "Load", "LoadAddr", "Csr", "CsrI"} -> {n.rd}
     [] OTHER -> {}) \ {0, -1}

---------------------------------------------------------------------------
(* Executable semantics of one node.                                       *)
(* State: [reg : Regs -> word, csrw : Seq(<<csr, word>>),                  *)
(*         stores : Seq(<<op, addr, val>>), ctl : record]                  *)
(* Memory reads are uninterpreted: MemVal(addr); label addresses AddrOf.   *)
(***************************************************************************)
RET == 4194308                       \* "address after this statement"
AddrOf(lab) == 268500992 + 64 * Len(lab)   \* 0x10010000 + ..., distinct per label length (labels used: L, LL, ...)
MemVal(addr) == XorW(MulW(addr, 40503), 1515870810)
CsrInit(c) == XorW(c, 305419896)

LoadVal(op, addr) ==
  LET w == MemVal(addr) IN
  CASE op = "lb"  -> Sext(w, 8)
    [] op = "lbu" -> w % 256
    [] op = "lh"  -> Sext(w, 16)
    [] op = "lhu" -> w % 65536
    [] OTHER      -> w
StoreVal(op, v) ==
  CASE op = "sb" -> v % 256 [] op = "sh" -> v % 65536 [] OTHER -> v

RECURSIVE LastCsr(_, _, _)
LastCsr(ws, c, i) ==
  IF i = 0 THEN CsrInit(c)
  ELSE IF ws[i][1] = c THEN ws[i][2] ELSE LastCsr(ws, c, i - 1)
CsrVal(s, c) == LastCsr(s.csrw, c, Len(s.csrw))

BranchTaken(op, a, b) ==
  CASE op = "beq" -> a = b [] op = "bne" -> a # b
    [] op = "blt" -> a < b [] op = "bge" -> a >= b
    [] op = "bltu" -> LtU(a, b) [] op = "bgeu" -> ~LtU(a, b)

R(s, r) == IF r = 0 THEN 0 ELSE s.reg[r]
SetR(s, r, v) == IF r = 0 THEN s.reg ELSE [s.reg EXCEPT ![r] = v]
CtlNext == [t |-> "next", taken |-> FALSE, lab |-> "", target |-> 0]

HasSemantics(n) ==
  \/ n.k = "Arith" /\ n.op \in ArithOps32
  \/ n.k = "IArith" /\ n.op \in IArithOps32 \cup {"lui"}
  \/ n.k \in {"JumpLink", "JumpLinkR", "Branch", "LoadAddr", "Csr", "CsrI", "Basic"}
  \/ n.k = "Load" /\ n.op \in LoadOps
  \/ n.k = "Store"

ExecNode(n, s) ==
  CASE n.k = "Arith" ->
         [s EXCEPT !.reg = SetR(s, n.rd, Fold(n.op, R(s, n.rs1), R(s, n.rs2))), !.ctl = CtlNext]
    [] n.k = "IArith" ->
         [s EXCEPT !.reg = SetR(s, n.rd, IF n.op = "lui" THEN n.imm
                                          ELSE Fold(IBase(n.op), R(s, n.rs1), n.imm)),
                   !.ctl = CtlNext]
    [] n.k = "Load" ->
         [s EXCEPT !.reg = SetR(s, n.rd, LoadVal(n.op, AddW(R(s, n.rs1), n.imm))), !.ctl = CtlNext]
    [] n.k = "Store" ->
         [s EXCEPT !.stores = Append(@, <<n.op, AddW(R(s, n.rs1), n.imm), StoreVal(n.op, R(s, n.rs2))>>),
                   !.ctl = CtlNext]
    [] n.k = "LoadAddr" ->
         [s EXCEPT !.reg = SetR(s, n.rd, AddrOf(n.lab)), !.ctl = CtlNext]
    [] n.k = "JumpLink" ->
         [s EXCEPT !.reg = SetR(s, n.rd, RET),
                   !.ctl = [t |-> "jal", taken |-> TRUE, lab |-> n.lab, target |-> 0]]
    [] n.k = "JumpLinkR" ->
         [s EXCEPT !.reg = SetR(s, n.rd, RET),
                   !.ctl = [t |-> "jalr", taken |-> TRUE, lab |-> "",
                            target |-> AndW(AddW(R(s, n.rs1), n.imm), -2)]]
    [] n.k = "Branch" ->
         [s EXCEPT !.ctl = [t |-> "br", taken |-> BranchTaken(n.op, R(s, n.rs1), R(s, n.rs2)),
                            lab |-> n.lab, target |-> 0]]
    [] n.k = "Csr" ->
         LET old == CsrVal(s, n.csr)
             src == R(s, n.rs1)
             new == CASE n.op = "csrrw" -> src
                      [] n.op = "csrrs" -> OrW(old, src)
                      [] n.op = "csrrc" -> AndW(old, NotW(src))
             wr  == n.op = "csrrw" \/ n.rs1 # 0
         IN [s EXCEPT !.reg = SetR(s, n.rd, old),
                      !.csrw = IF wr THEN Append(@, <<n.csr, new>>) ELSE @,
                      !.ctl = CtlNext]
    [] n.k = "CsrI" ->
         LET old == CsrVal(s, n.csr)
             u   == n.imm % 32
             new == CASE n.op = "csrrwi" -> u
                      [] n.op = "csrrsi" -> OrW(old, u)
                      [] n.op = "csrrci" -> AndW(old, NotW(u))
             wr  == n.op = "csrrwi" \/ u # 0
         IN [s EXCEPT !.reg = SetR(s, n.rd, old),
                      !.csrw = IF wr THEN Append(@, <<n.csr, new>>) ELSE @,
                      !.ctl = CtlNext]
    [] n.k = "Basic" ->
         [s EXCEPT !.ctl = [t |-> n.op, taken |-> FALSE, lab |-> "", target |-> 0]]

RECURSIVE ExecSeq(_, _, _)
\* straight-line execution of a node sequence; "esc" records a control
\* transfer before the last node (which an expansion must not contain)
ExecSeq(ns, i, s) ==
  IF i > Len(ns) THEN s
  ELSE LET s2 == ExecNode(ns[i], s) IN
       IF i < Len(ns) /\ s2.ctl.t # "next"
         THEN [s2 EXCEPT !.ctl = [t |-> "escape", taken |-> FALSE, lab |-> "", target |-> i]]
         ELSE ExecSeq(ns, i + 1, s2)

InitState(regf) == [reg |-> regf, csrw |-> <<>>, stores |-> <<>>, ctl |-> CtlNext]

\* effective csr contents after a run, for the csrs touched by either side
CsrsOf(ns) == {ns[i].csr : i \in 1..Len(ns)} \ {-1}

SameEffect(a, b, csrs) ==
  /\ \A r \in 1..31 : a.reg[r] = b.reg[r]
  /\ a.stores = b.stores
  /\ a.ctl = b.ctl
  /\ \A c \in csrs : CsrVal(a, c) = CsrVal(b, c)

\* value grid for the registers a case involves
GridVals == {0, 1, -1, 5, -7, MinW, MaxW}
BaseRegFile == [r \in Regs |-> IF r = 0 THEN 0 ELSE 1000 + 37 * r]

\* all register files that agree with BaseRegFile except on `rs` (a set of <= 3 registers)
RegFiles(rs) ==
  LET live == rs \ {0, -1} IN
  { [r \in Regs |-> IF r \in live THEN f[r] ELSE BaseRegFile[r]] : f \in [live -> GridVals] }

Involved(ns) == UNION { {ns[i].rd, ns[i].rs1, ns[i].rs2} : i \in 1..Len(ns) }

\* obs and ref compute the same result / branch decision on the whole grid
Equivalent(obs, ref) ==
  \A rf \in RegFiles(Involved(obs) \cup Involved(ref)) :
    SameEffect(ExecSeq(obs, 1, InitState(rf)), ExecSeq(ref, 1, InitState(rf)),
               CsrsOf(obs) \cup CsrsOf(ref))
=============================================================================
