----------------------------- MODULE Gen_Rename -----------------------------
(* spec -> impl generator of renamings (C14): a permutation of the temporary *)
(* class t0-t6 and of the saved class s0-s11 (every transposition and every  *)
(* rotation of each class, so that every register of a class is moved), and  *)
(* an injective label renaming scheme.                                       *)
EXTENDS Integers, Sequences, FiniteSets, TLC, Json
CONSTANT NP
VARIABLES phase, prog, tperm, sperm, labs
vars == <<phase, prog, tperm, sperm, labs>>
T == <<5, 6, 7, 28, 29, 30, 31>>
Sv == <<8, 9, 18, 19, 20, 21, 22, 23, 24, 25, 26, 27>>
Id(c) == [i \in 1..Len(c) |-> c[i]]
Transp(c, a, b) == [i \in 1..Len(c) |-> IF i = a THEN c[b] ELSE IF i = b THEN c[a] ELSE c[i]]
Rot(c, r) == [i \in 1..Len(c) |-> c[((i - 1 + r) % Len(c)) + 1]]
Perms(c) == {Id(c)} \cup { Transp(c, a, b) : a, b \in 1..Len(c) } \cup { Rot(c, r) : r \in 1..(Len(c) - 1) }
\* "tool-k": the k-th label gets a name that looks like one the tool could use internally (__return__)
Schemes == {"same", "suffix", "underscore", "digits", "long", "swap", "reverse", "dunder",
            "tool-0", "tool-1", "tool-2", "tool-3", "tool-4", "tool-5"}
Init == phase = "start" /\ prog = 0 /\ tperm = Id(T) /\ sperm = Id(Sv) /\ labs = "same"
Pick == /\ phase = "start"
        /\ \E p \in 1..NP, tp \in Perms(T), sp \in Perms(Sv), l \in Schemes :
             /\ (tp = Id(T) \/ sp = Id(Sv) \/ l = "same")      \* at most two of the three at once
             /\ ~(tp = Id(T) /\ sp = Id(Sv) /\ l = "same")
             /\ prog' = p /\ tperm' = tp /\ sperm' = sp /\ labs' = l
        /\ phase' = "emit"
Emit == /\ phase = "emit"
        /\ PrintT("CASE " \o ToJson([prog |-> prog, tfrom |-> T, tto |-> tperm, sfrom |-> Sv, sto |-> sperm, labs |-> labs]))
        /\ phase' = "done" /\ UNCHANGED <<prog, tperm, sperm, labs>>
Next == Pick \/ Emit
Spec == Init /\ [][Next]_vars
=============================================================================
