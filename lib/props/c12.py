"""C12 — analysis results are a stable fixed point of the pass pipeline."""
import os
import time
from vlib import *
import corpus
import props.execcommon as ex

PID = "C12"


STEP_HISTORY = ["A", "L", "E", "A", "L", "A"]


def passloop_model(out, tier):
    """PassLoop.tla: exhaustive over all graphs up to the bound; the two pre-repair schemes must be refuted."""
    info = {}
    res = run_tlc("PassLoop", cfg="PassLoop", workers=8, heap="8g", timeout=1500)
    out.add_tlc(res)
    if res.rc != 0:
        raise ToolError("PassLoop.tla: the as-built model of the value-analysis loop violates its design properties:\n"
                        + res.out[-2500:])
    info["PassLoop N=3 (all graphs with out-degree <= 2, gen/kill over one fact, 3 runs with an edge cut between)"] = \
        {"distinct_states": res.distinct, "result": "SweepBound, FixedPoint, Stable, AllVisited, Terminates hold"}
    for cfg, what in (("PassLoop_old1", "FixedPoint"), ("PassLoop_old2", "")):
        r = run_tlc("PassLoop", cfg=cfg, workers=8, heap="8g", timeout=1500)
        out.add_tlc(r)
        refuted = "is violated" in r.out
        info[cfg + " (negative control: the scheme before 35309c1 / with the wait rule off)"] = \
            ("refuted: " + " ".join(l.strip() for l in r.out.splitlines() if "is violated" in l)) if refuted else "not refuted at this bound"
        if cfg == "PassLoop_old1" and not refuted:
            raise ToolError("negative control PassLoop_old1 was not refuted: the model does not distinguish the repaired scheme")
    # N = 4 on a slice of the graphs (no kills, one generating node): the scheme before the roots were pinned must be
    # refuted (facts that flip between two states for ever), the present one must hold
    r3 = run_tlc("PassLoop", cfg="PassLoop_old3", workers=8, heap="8g", timeout=1500)
    out.add_tlc(r3)
    if "Invariant SweepBound is violated" not in r3.out:
        raise ToolError("negative control PassLoop_old3 (roots not pinned, N = 4) was not refuted")
    info["PassLoop_old3 (negative control, N = 4: a promoted root takes its predecessors into account after its first visit)"] = \
        "refuted: Invariant SweepBound is violated (the facts of an unreachable loop flip between two states for ever)"
    r4 = run_tlc("PassLoop", cfg="PassLoop_n4s", workers=8, heap="8g", timeout=1500)
    out.add_tlc(r4)
    if r4.rc != 0:
        raise ToolError("PassLoop.tla (N = 4, slice): design properties violated:\n" + r4.out[-2500:])
    info["PassLoop N=4 slice (all graphs with out-degree <= 2, no kills, one generating node, 2 runs)"] = \
        {"distinct_states": r4.distinct, "result": "SweepBound, FixedPoint, Stable, AllVisited hold"}
    # the u_def computation inside LivenessPass::run: the same skeleton without a wait rule; "not visited yet" is
    # "everything" (7f73c33).  The scheme before that (empty set for a node none of whose predecessors was visited)
    # must be refuted at N = 4: sets that grow and shrink in turns for ever.
    ru = run_tlc("PassLoop", cfg="PassLoop_Udef", workers=8, heap="8g", timeout=1500)
    out.add_tlc(ru)
    if ru.rc != 0:
        raise ToolError("PassLoop.tla (u_def scheme): design properties violated:\n" + ru.out[-2500:])
    info["PassLoop_Udef N=3 (the u_def scheme of the liveness pass: no wait rule, unvisited predecessors are 'everything', 3 runs with an edge cut between)"] = \
        {"distinct_states": ru.distinct, "result": "FixedPoint, Stable, AllVisited, Terminates hold"}
    ruo = run_tlc("PassLoop", cfg="PassLoop_Udef_old", workers=8, heap="8g", timeout=1500)
    out.add_tlc(ruo)
    if "Invariant SweepBound is violated" not in ruo.out:
        raise ToolError("negative control PassLoop_Udef_old (u_def scheme before 7f73c33, N = 4) was not refuted")
    info["PassLoop_Udef_old (negative control, N = 4: a node none of whose predecessors was visited starts from the empty set)"] = \
        "refuted: Invariant SweepBound is violated (the sets of an unreachable loop grow and shrink in turns for ever)"
    # the rounds of value analysis and ecall termination in Manager::gen_full_cfg
    rp = run_tlc("Pipeline", cfg="Pipeline", workers=8, heap="12g", timeout=1800)
    out.add_tlc(rp)
    if rp.rc != 0:
        raise ToolError("Pipeline.tla: the as-built model of the pass rounds violates its design properties:\n" + rp.out[-2500:])
    info["Pipeline N=3 (rounds of value analysis and ecall termination repeated until nothing is cut)"] = \
        {"distinct_states": rp.distinct, "result": "SweepBound, Consistent, EdgesStopAtExits, RoundsBound, PTerminates hold"}
    ro = run_tlc("Pipeline", cfg="Pipeline_old", workers=8, heap="12g", timeout=1800)
    out.add_tlc(ro)
    if "is violated" not in ro.out:
        raise ToolError("negative control Pipeline_old (two fixed rounds) was not refuted")
    info["Pipeline_old (negative control: two fixed rounds, the pipeline before b8ae840)"] = \
        "refuted: " + " ".join(l.strip() for l in ro.out.splitlines() if "is violated" in l)
    if tier == "thorough":
        r = run_tlc("PassLoop", cfg="PassLoop_n4", workers=12, heap="24g", timeout=7200)
        out.add_tlc(r)
        if r.rc != 0:
            raise ToolError("PassLoop.tla (N=4): design properties violated:\n" + r.out[-2500:])
        info["PassLoop N=4 (2 runs)"] = {"distinct_states": r.distinct, "result": "SweepBound, FixedPoint, Stable, AllVisited hold"}
        rp4 = run_tlc("Pipeline", cfg="Pipeline_n4s", workers=12, heap="24g", timeout=7200)
        out.add_tlc(rp4)
        if rp4.rc != 0:
            raise ToolError("Pipeline.tla (N=4, kill-free slice): design properties violated:\n" + rp4.out[-2500:])
        info["Pipeline N=4 (every graph and every set of ecall nodes, no kills)"] = {"distinct_states": rp4.distinct, "result": "SweepBound, Consistent, EdgesStopAtExits, RoundsBound hold"}
        r5 = run_tlc("PassLoop", cfg="PassLoop_Udef_n4", workers=12, heap="24g", timeout=7200)
        out.add_tlc(r5)
        if r5.rc != 0:
            raise ToolError("PassLoop.tla (u_def scheme, N=4): design properties violated:\n" + r5.out[-2500:])
        info["PassLoop_Udef N=4 (2 runs)"] = {"distinct_states": r5.distinct, "result": "FixedPoint, Stable, AllVisited hold; the state graph is finite (depth 52), so every run ends"}
        r2 = run_tlc("PassLoop", cfg="PassLoop_2f", workers=12, heap="24g", timeout=7200)
        out.add_tlc(r2)
        if r2.rc != 0:
            raise ToolError("PassLoop.tla (N=3, two facts): design properties violated:\n" + r2.out[-2500:])
        info["PassLoop N=3 with two facts (2 runs)"] = {"distinct_states": r2.distinct, "result": "SweepBound (the same 2N+1), FixedPoint, Stable, AllVisited hold"}
    return info


def steps_check(out, rvh, wd, texts):
    hc = [dict({"id": i + 1, "mode": "steps", "history": STEP_HISTORY},
               **({"files": json.loads(t), "base": "main.s"} if t.startswith("{") else {"text": t})) for i, t in enumerate(texts)]
    tp, evs = run_harness_par(rvh, hc, wd, "steps", timeout_ms=30000, shards=8)
    trace, owner = [], []
    nprog = 0
    for i, e in enumerate(evs):
        if e["ev"] != "steps":
            continue
        nprog += 1
        trace.append({"ev": "program", "gid": len(trace) + 1, "prog": i + 1})
        owner.append(i)
        for x in e["events"]:
            x = dict(x)
            x["gid"] = len(trace) + 1
            x["prog"] = i + 1
            trace.append(x)
            owner.append(i)
    # cut only at program boundaries: the trace machine restarts per chunk
    chunks, cur = [], []
    for x in trace:
        if x["ev"] == "program" and len(cur) > 6000:
            chunks.append(cur)
            cur = []
        cur.append(x)
    if cur:
        chunks.append(cur)
    verdicts, drift, runs = [], [], []
    from concurrent.futures import ThreadPoolExecutor

    def one(k):
        path = os.path.join(wd, f"steps.chunk.{k}.ndjson")
        write_ndjson(path, chunks[k])
        r = tlc_validate("Trace_PassLoop", path, heap="6g", workdir=os.path.join(WORK, "tlc", f"Trace_PassLoop.{k}"))
        os.remove(path)
        return r
    with ThreadPoolExecutor(max_workers=4) as ex:
        results = list(ex.map(one, range(len(chunks))))
    for vv, acc, res in results:
        if not acc:
            raise ToolError("Trace_PassLoop: trace not consumed")
        out.add_tlc(res)
        for x in vv:
            x["text"] = texts[x["prog"] - 1]
            x["id"] = x["prog"]
        verdicts += vv
        drift += res.tagged("DRIFT")
        runs += res.tagged("RUN")
    for d in drift:
        out.drift.append({"key": d["key"], "program": texts[d["prog"] - 1][:400]})
    dk = {}
    for d in drift:
        dk[d["key"]] = dk.get(d["key"], 0) + 1
    if dk:
        out.notes.append("SPEC-DRIFT (the code no longer follows PassLoop.tla at these steps; not a violation): " + json.dumps(dk))
    info = {"programs": nprog, "events": len(trace), "pass_runs": len(runs),
            "reruns_compared": sum(1 for r in runs if r["rerun"]),
            "runs_with_promoted_roots": sum(1 for r in runs if r["roots"] > 0),
            "max_sweeps": max([r["sweeps"] for r in runs] or [0]), "drift": dk, "history": STEP_HISTORY}
    return verdicts, info


def run(tier, replay=None):
    out = Outcome(PID, tier)
    wd = os.path.join(WORK, PID)
    rvh = build_harness()
    hists, gres = tlc_generate("Gen_Hist", coverage=True)
    out.add_tlc(gres)
    hists = [h["hist"] for h in hists]
    light = set()
    if replay:
        texts = [json.load(open(replay))["witness"]["text"]]      # a multi-file input is its JSON text
    else:
        nval, nflow = (60, 120) if tier == "quick" else (1500, 3000)
        r1 = run_tlc("Gen_Values", cfg="Gen_Values_sim", simulate=nval, depth=30, workers=4, seed_=seed() * 5 + 1)
        r2 = run_tlc("Gen_Flow", cfg="Gen_Flow_sim", simulate=nflow, depth=40, workers=4, seed_=seed() * 7 + 2, heap="6g")
        out.add_tlc(r1)
        out.add_tlc(r2)
        texts = [c["text"] for c in r1.tagged("CASE")] + [c["text"] for c in r2.tagged("CASE") if c["shape"] == "forced"]
        bres = tlc_generate("Gen_Blocks", cfg="Gen_Blocks", heap="6g")
        out.add_tlc(bres[1])
        bl = [c["text"] for c in bres[0]]
        texts += bl if tier == "thorough" else [t for i, t in enumerate(bl) if i % 6 == seed() % 6]
        cres = run_tlc("Gen_Conform", cfg="Gen_Conform", simulate=(30 if tier == "quick" else 600), depth=10, workers=4, seed_=seed() * 59 + 4)
        texts += list(dict.fromkeys(c["text"] for c in cres.tagged("CASE"))) + corpus.SHARED_PROGRAMS
        texts += list(corpus.all_programs().values()) + corpus.VALUE_PROGRAMS + corpus.LOOP_PROGRAMS
        texts += shared_programs(tier, out, part=4) + corpus.EXIT_PROGRAMS + corpus.CSR_PROGRAMS
        rcsr = run_tlc("Gen_Csr", cfg="Gen_Csr", simulate=(60 if tier == "quick" else 3000), depth=10, workers=4, seed_=seed() * 61 + 3)
        out.add_tlc(rcsr)
        texts += [c["text"] for c in rcsr.tagged("CASE")]
        texts = list(dict.fromkeys(texts))
        # unreachable regions of K statements, every arrangement of jumps / branches / known / unknown values (the graphs
        # on which the value analysis picks its own starting points); run with the short histories only
        dres = tlc_generate("Gen_DeadCode", cfg="Gen_DeadCode4", heap="6g")
        out.add_tlc(dres[1])
        dead = [c["text"] for c in dres[0]]
        if tier == "quick":      # 14^4 regions: a third of them, rotating with the seed (all in the thorough tier)
            dead = [t for i, t in enumerate(dead) if i % 3 == seed() % 3]
        d3 = tlc_generate("Gen_DeadCode", cfg="Gen_DeadCode3r", heap="6g")
        out.add_tlc(d3[1])
        dead += [c["text"] for c in d3[0]]
        if tier == "thorough":
            d5 = tlc_generate("Gen_DeadCode", cfg="Gen_DeadCode5", heap="8g", timeout=3000)
            out.add_tlc(d5[1])
            dead += [c["text"] for i, c in enumerate(d5[0]) if i % 12 == seed() % 12]      # 17^5 regions: every 12th
        light = set(dead) - set(texts)
        texts += sorted(light)
        texts += [json.dumps(f, sort_keys=True) for f in corpus.TWIN_FILES]      # multi-file inputs travel as JSON text

    short = [h for h in hists if len(h) <= 1]

    def case_of(i, t):
        c = {"id": i + 1, "mode": "stable", "histories": (short if t in light else hists), "digest": not replay}
        if t.startswith("{"):
            c["files"], c["base"] = json.loads(t), "main.s"
        else:
            c["text"] = t
        return c
    hc = [case_of(i, t) for i, t in enumerate(texts)]
    t0 = time.time()
    tp, evs = run_harness_par(rvh, hc, wd, "stable", timeout_ms=30000, shards=12)
    log(f"[c12] {len(hc)} programs ({len(light)} with short histories) analysed in {time.time() - t0:.0f}s")
    trace = []
    owner = []
    nruns = 0
    hangs = []
    for i, e in enumerate(evs):
        if e["ev"] == "timeout":
            # "the analyses reach this fixed point in a number of sweeps bounded by a small multiple of the program size":
            # no result within the watchdog (30 s for a program of a few dozen instructions) is a violation here too
            hangs.append({"id": i + 1, "key": "C12:no-fixed-point-within-the-watchdog", "text": texts[i]})
            continue
        if e["ev"] != "stable":
            out.notes.append(f"program {i + 1} not observable ({e['ev']}): C06's business")
            continue
        trace.append({"ev": "program", "id": len(trace) + 1})
        owner.append(i)
        for r in e["runs"]:
            if not r["ok"]:
                continue
            nruns += 1
            trace.append({"ev": "analysed", "id": len(trace) + 1, "parts": r["first"], "sweeps": r["sweeps"]})
            owner.append(i)
            for st in r["steps"]:
                trace.append({"ev": "extra", "id": len(trace) + 1, "pass": st["pass"], "ok": st["ok"],
                              "parts": st["parts"], "sweeps": st["sweeps"], "hist": r["hist"]})
                owner.append(i)
    # ---- as-built layer: the iteration scheme of the value analysis, model-checked over all small graphs
    model = {}
    if not replay:
        model = passloop_model(out, tier)
    # ---- as-built layer bound to the code: step traces of the real pass loops against the same operators
    nsteps = 120 if tier == "quick" else 1500
    if replay:
        stexts = texts
    else:
        r = rng("c12-steps")
        stexts = list(corpus.LOOP_PROGRAMS) + [t for t in texts if t not in corpus.LOOP_PROGRAMS]
        head, rest = stexts[:len(corpus.LOOP_PROGRAMS)], stexts[len(corpus.LOOP_PROGRAMS):]
        r.shuffle(rest)
        stexts = [t for t in head if t] + rest[:nsteps]
    t0 = time.time()
    sv, sinfo = steps_check(out, rvh, wd, stexts)
    log(f"[c12] step traces of {len(stexts)} programs checked in {time.time() - t0:.0f}s")
    v, ress = validate_chunks("Trace_Stable", trace, wd, "stable.chunk", chunk=20000, heap="8g")
    # chunks restart the state machine: a chunk boundary inside a program only loses a comparison, never adds one
    for r in ress:
        out.add_tlc(r)
    for x in v:
        x["text"] = texts[owner[x["id"] - 1]]
        x["event"] = {k: trace[x["id"] - 1].get(k) for k in ("ev", "pass", "hist")}
    out.add_verdicts(v)
    out.add_verdicts(sv)
    out.add_verdicts(hangs)
    maxsw = {}
    for t in trace:
        for s in t.get("sweeps", []):
            maxsw[s["pass"]] = max(maxsw.get(s["pass"], 0), s["n"])
    out.cov["traces_validated_against_impl"] = len(trace)
    out.sample({"text": texts[0], "histories": hists[:4]})
    out.sample({"history": hists[-1]})
    out.assumptions += [
        "the harness sends a 64-bit keyed digest (with length) of each observable group instead of its text (equality is all the specification asks); a replay sends the text",
        "observables: node list, edges, value facts, live sets, u_def, function table / owners, lint diagnostics (canonical JSON per group)",
        "sweep cap 4*N + 3 per run of a real pass (N = number of Cfg nodes); PassLoop.tla (one fact) reaches exactly 2*N + 1 for N <= 4; sweep counters come from the rva_verif hooks",
        "a chunk boundary of the validated trace may drop one comparison, never add one",
    ]
    return out.finish(extra_cov={
        "programs": len(texts), "histories": len(hists), "analyses": nruns, "trace_events": len(trace),
        "max_sweeps_seen": maxsw, "exhaustive": False, "as_built_model": model, "step_traces": sinfo,
        "evaluations": len(trace), "distinct_nontrivial": len(texts) * len(hists),
        "rule": "every history in {A,E,L}^(1..3) (39, exhaustive from Gen_Hist) x programs from Gen_Values / Gen_Flow (tlc -simulate) and the corpus incl. loops / irreducible flow / recursion; one fresh analysis of the same parsed program per history",
    })
