---------------------------- MODULE Trace_Stable ----------------------------
(* impl -> spec (C12): a recorded history of pass runs is accepted only as   *)
(* stuttering on the observables.  State: the observables of the program     *)
(* under analysis (`cur`) and those of its first analysis (`first`).         *)
(*   program(id)            - a new program starts                           *)
(*   analysed(parts,sweeps) - the standard pipeline ran on a clone of the    *)
(*                            same parsed program: must equal the first run  *)
(*   extra(pass,parts,sweeps) - one more pass ran: observables unchanged     *)
(* Sweep bound: PassOps!SweepLimit(N) = 4 * N + 3 (PassLoop.tla, one fact: 2 * N + 1     *)
(* is reached by chains of dead loops).                                       *)
EXTENDS Integers, Sequences, TLC, Json, IOUtils, PassOps
Rec == ndJsonDeserialize(IOEnv.TRACE)
VARIABLES l, cur, first
vars == <<l, cur, first>>

Groups == <<"nodes", "edges", "values", "live", "udef", "funcs", "lints">>
NoParts == [g \in {Groups[i] : i \in 1..Len(Groups)} |-> ""]

RECURSIVE Diff(_, _, _, _)
Diff(a, b, i, pre) ==
  IF i > Len(Groups) THEN <<>>
  ELSE (IF a[Groups[i]] # b[Groups[i]] THEN << pre \o Groups[i] >> ELSE <<>>) \o Diff(a, b, i + 1, pre)

RECURSIVE SweepBad(_, _, _)
SweepBad(sw, n, i) ==
  IF i > Len(sw) THEN <<>>
  ELSE (IF sw[i].n > SweepLimit(n) THEN << "C12:sweeps-exceed-limit:" \o sw[i].pass >> ELSE <<>>) \o SweepBad(sw, n, i + 1)

RECURSIVE Report(_, _, _)
Report(e, bad, i) ==
  IF i > Len(bad) THEN TRUE
  ELSE PrintT("VERDICT " \o ToJson([id |-> e.id, key |-> bad[i]])) /\ Report(e, bad, i + 1)

Init == l = 1 /\ cur = NoParts /\ first = NoParts
Program  == /\ Rec[l].ev = "program" /\ cur' = NoParts /\ first' = NoParts
Analysed == /\ Rec[l].ev = "analysed"
            /\ LET e == Rec[l] IN
               /\ Report(e, (IF first = NoParts THEN <<>> ELSE Diff(first, e.parts, 1, "C12:reanalysis-differs:"))
                            \o SweepBad(e.sweeps, e.parts.n, 1), 1)
               /\ first' = (IF first = NoParts THEN e.parts ELSE first)
               /\ cur' = e.parts
Extra    == /\ Rec[l].ev = "extra"
            /\ LET e == Rec[l] IN
               /\ Report(e, (IF cur = NoParts THEN <<>> ELSE Diff(cur, e.parts, 1, "C12:extra-" \o e.pass \o "-changes:"))
                            \o (IF e.ok THEN <<>> ELSE << "C12:extra-" \o e.pass \o "-fails" >>)
                            \o SweepBad(e.sweeps, e.parts.n, 1), 1)
               /\ cur' = e.parts /\ first' = first
Next == l <= Len(Rec) /\ (Program \/ Analysed \/ Extra) /\ l' = l + 1
Spec == Init /\ [][Next]_vars
Accepted == IF TLCGet("stats").diameter = Len(Rec) + 1 THEN TRUE
            ELSE PrintT("TRACE-NOT-CONSUMED") /\ FALSE
=============================================================================
