CONSTANTS K = 3
  Reach = FALSE
INIT Init
NEXT Next
CHECK_DEADLOCK FALSE
