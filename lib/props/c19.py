"""C19 — the CFG debug dump is a faithful, reloadable serialization."""
import os
import subprocess
import tempfile
from vlib import *
import corpus

PID = "C19"
CSR_PROGRAMS = [
    "main:\n    csrr t0, 5\n    li t1, 5\n    add a0, t0, t1\n    li a7, 10\n    ecall\n",
    "main:\n    la t0, handler\n    csrrw zero, 5, t0\n    csrrwi zero, 64, 3\n    csrr t1, 64\n    li a7, 10\n    ecall\nhandler:\n    csrrw t0, 64, t0\n    sw t1, 0(t0)\n    lw t1, 0(t0)\n    csrrw t0, 64, t0\n    uret\n",
    "main:\n    addi sp, sp, -16\n    sw s0, 12(sp)\n    sw ra, -4(sp)\n    la t0, D\n    lw t1, 4(t0)\n    lw t2, 8(sp)\n    addi sp, sp, 16\n    li a7, 10\n    ecall\n.data\nD: .word 1\n",
]


def proj_groups(e):
    """canonical strings of the analysis result, per group (what the dump must distinguish)"""
    nodes = e["cfg"]["nodes"]
    def pick(keys):
        return json.dumps([[n[k] for k in keys] for n in nodes], sort_keys=True)
    return {
        "nodes": json.dumps([[n["node"][k] for k in ("k", "op", "rd", "rs1", "rs2", "imm", "lab", "csr")] + [n["labels"]] for n in nodes]),
        "edges": pick(["nexts", "prevs"]),
        "values": pick(["rin", "rout", "min", "mout"]),
        "live": pick(["live_in", "live_out", "udef"]),
        "funcs": pick(["funcs"]),
    }


def run(tier, replay=None):
    out = Outcome(PID, tier)
    wd = os.path.join(WORK, PID)
    rvh = build_harness()
    cases, gres = tlc_generate("Gen_Dump", coverage=True)
    out.add_tlc(gres)
    values = [c["v"] for c in cases if not c["loc"] and not c["set"]]
    sets = [c["v"]["regs"] for c in cases if c["set"]]
    locs = [c["v"] for c in cases if c["loc"]]
    hc = [{"id": 1, "mode": "yamlval", "values": values, "locs": locs, "sets": sets}]
    nval, nflow = (60, 120) if tier == "quick" else (1500, 3000)
    r1 = run_tlc("Gen_Values", cfg="Gen_Values_sim", simulate=nval, depth=30, workers=4, seed_=seed() * 13 + 1)
    r2 = run_tlc("Gen_Flow", cfg="Gen_Flow_sim", simulate=nflow, depth=40, workers=4, seed_=seed() * 19 + 2, heap="6g")
    out.add_tlc(r1)
    out.add_tlc(r2)
    texts = [c["text"] for c in r1.tagged("CASE")] + [c["text"] for c in r2.tagged("CASE") if c["shape"] in ("forced", "data")]
    import absprog
    texts += list(corpus.all_programs().values()) + corpus.VALUE_PROGRAMS + CSR_PROGRAMS + corpus.CSR_PROGRAMS + corpus.SHARED_PROGRAMS
    texts += [absprog.render(p) for p in absprog.PROGRAMS.values()]
    texts += shared_programs(tier, out, part=1)
    rcsr = run_tlc("Gen_Csr", cfg="Gen_Csr", simulate=(150 if tier == "quick" else 3000), depth=10, workers=4, seed_=seed() * 67 + 3)
    out.add_tlc(rcsr)
    texts += [c["text"] for c in rcsr.tagged("CASE")]
    texts = list(dict.fromkeys(texts))
    if replay:
        texts = [json.load(open(replay))["witness"]["text"]]
    for t in texts:
        hc.append({"id": len(hc) + 1, "mode": "observe", "text": t, "want": ["cfg", "yaml"]})
    tp, evs = run_harness_par(rvh, hc, wd, "dump")
    trace = []
    bydump = {}
    for e in evs:
        if e["ev"] == "obs" and e.get("cfgok"):
            g = proj_groups(e)
            bydump.setdefault(e["yaml"], []).append((e["id"], g))
            trace.append({"ev": "obs", "id": e["id"], "cfgok": True, "yaml_rt": e["yaml_rt"]})
            # faithfulness: the dump, read back by a generic YAML reader, against the structure it was written from
            # (the dump numbers nodes from 0, the projection from 1)
            mem = [{"nexts": [x - 1 for x in n["nexts"]], "prevs": [x - 1 for x in n["prevs"]], "live_in": n["live_in"],
                    "live_out": n["live_out"], "u_def": n["udef"], "fpairs": [[a - 1, b - 1] for a, b in n["fpairs"]]}
                   for n in e["cfg"]["nodes"]]
            trace.append({"ev": "faithful", "id": e["id"], "dump": e.get("ydata", []), "mem": mem})
        elif e["ev"] == "yamlval":
            trace.append(e)
        else:
            trace.append({"ev": "skip", "id": e["id"]})
    # results that share a dump must be equal in every group
    npairs = 0
    for y, lst in bydump.items():
        for (i, g) in lst[1:]:
            for k in g:
                npairs += 1
                trace.append({"ev": "samedump", "id": i, "what": k, "a": lst[0][1][k], "b": g[k]})
    # and through the CLI: rva lint --yaml | reload in the harness is covered by yaml_rt (same serde path)
    v, ress = validate_chunks("Trace_Dump", trace, wd, "dump.chunk", chunk=5000, heap="8g")
    for r in ress:
        out.add_tlc(r)
    for x in v:
        x["text"] = texts[x["id"] - 2] if x["id"] >= 2 else "(value batch)"
    out.add_verdicts(v)
    out.cov["traces_validated_against_impl"] = len(trace)
    out.sample({"value": values[0]})
    out.sample({"location": locs[0]})
    out.sample({"program": texts[0]})
    ndistinct = len({json.dumps(g, sort_keys=True) for lst in bydump.values() for (_, g) in lst})
    out.assumptions += [
        "values are wrapped in a one-entry register map / memory map for serialization (the public encoding path of the dump)",
        "different results -> different dumps is checked on the programs of this run (all pairs sharing a dump), not on all conceivable results",
    ]
    return out.finish(extra_cov={
        "values": len(values), "locations": len(locs), "register_sets": len(sets), "programs": len(texts), "distinct_results": ndistinct,
        "dump_collisions_examined": npairs, "exhaustive": True,
        "evaluations": len(values) + len(locs) + len(texts), "distinct_nontrivial": len(values) + len(locs) + ndistinct,
        "rule": "Gen_Dump: every value kind x boundary registers/offsets/labels/CSR numbers and every memory-location kind (exhaustive); programs from Gen_Values/Gen_Flow simulation + corpus + CSR programs: dump, reload, compare; all results sharing a dump compared group by group",
    })
