CONSTANTS MaxK = 2
          NP = 11
INIT Init
NEXT Next
CHECK_DEADLOCK FALSE
