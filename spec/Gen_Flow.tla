------------------------------ MODULE Gen_Flow ------------------------------
(* spec -> impl generator of control-flow / call-graph / label arrangements  *)
(* (C03, C11, C16, reused by C01/C02/C12): programs of n instructions over a *)
(* flow alphabet; call targets L1, L2 and branch targets K1, K2 placed       *)
(* before any instruction or at the end of the file.  Shapes:                *)
(*   "forced": the instructions before L1, before L2 and the last one are    *)
(*             terminators (ret / exit / jump) - mostly analysable programs  *)
(*             with functions, shared tails, interleaving, fall-through      *)
(*   "free"  : anything (ill-formed mixes for C16)                           *)
(*   "dup"   : L1 defined twice;  "data": a .data section with label D1      *)
(* Exhaustive for small n (MC) and sampled by `tlc -simulate` for larger n.  *)
EXTENDS Integers, Sequences, TLC, Json
CONSTANTS MinN, MaxN
VARIABLES phase, shape, n, ins, pos, terms
vars == <<phase, shape, n, ins, pos, terms>>

Alpha == << [s |-> "P",   t |-> "li t0, 1"],
            [s |-> "Q",   t |-> "addi a0, a0, 1"],
            [s |-> "S",   t |-> "mv s1, a0"],
            [s |-> "BK1", t |-> "beq t0, t1, K1"],
            [s |-> "BK2", t |-> "bnez a0, K2"],
            [s |-> "JK1", t |-> "j K1"],
            [s |-> "JK2", t |-> "j K2"],
            [s |-> "C1",  t |-> "call L1"],
            [s |-> "C2",  t |-> "jal ra, L2"],
            [s |-> "C1",  t |-> "jal L1"],
            [s |-> "C2",  t |-> "call L2"],
            [s |-> "JL1", t |-> "j L1"],
            [s |-> "R",   t |-> "ret"],
            [s |-> "X",   t |-> "li a7, 10\n    ecall"],
            [s |-> "E",   t |-> "ecall"],
            [s |-> "A10", t |-> "li a7, 10"],
            [s |-> "A93", t |-> "li a7, 93"],
            [s |-> "RJ",  t |-> "jalr zero, ra, 0"],
            [s |-> "RR",  t |-> "jr ra"],
            [s |-> "H2",  t |-> "la t2, L2\n    csrrw zero, 5, t2"],
            [s |-> "H2",  t |-> "la t2, L2\n    csrrw t2, 5, t2"],      \* the swap form: old vector into the same register
            [s |-> "U",   t |-> "uret"],
            [s |-> "JT1", t |-> "jal t0, K1"],        \* a jump that links into a register other than ra
            [s |-> "JT2", t |-> "jal t1, K2"],
            [s |-> "A",   t |-> "la t1, D1"],
            [s |-> "CD",  t |-> "call D1"],
            [s |-> "CC",  t |-> "call DC"] >>
NA == Len(Alpha)
Sym(s) == CHOOSE a \in 1..NA : Alpha[a].s = s /\ \A b \in 1..(a - 1) : Alpha[b].s # s
Terminators == {Sym("R"), Sym("X"), Sym("JK1"), Sym("JL1"), Sym("U")}
\* shape weights (simulation picks successors uniformly)
\* "datadup": L1 is first defined as a data label (only directives behind it up to .text) and then again in the code;
\* "datacode": instructions inside .data behind the label DC, which the code may call
Shapes == <<"forced", "forced", "forced", "forced", "forced", "free", "free", "dup", "data", "datadup", "datacode">>
Allowed(sh) == IF sh \in {"data", "free", "datadup"} THEN (1..NA) \ {Sym("CC")}
               ELSE IF sh = "datacode" THEN 1..NA
               ELSE (1..NA) \ {Sym("A"), Sym("CD"), Sym("CC")}

Lab(q, i, name) == IF q = i THEN name \o ":\n" ELSE ""
RECURSIVE Render(_, _, _)
\* pos = <<L1, L2, K1, K2, L1dup>> : index of the instruction the label precedes (0 absent, n+1 end of file)
Render(is, i, p) ==
  Lab(p[1], i, "L1") \o Lab(p[2], i, "L2") \o Lab(p[3], i, "K1") \o Lab(p[4], i, "K2") \o Lab(p[5], i, "L1")
  \o (IF i > Len(is) THEN "" ELSE "    " \o Alpha[is[i]].t \o "\n" \o Render(is, i + 1, p))

Text(is, p, sh) ==
  (CASE sh = "data" -> ".data\nD1: .word 1\n.text\n"
     [] sh = "datadup" -> ".data\nD1: .word 1\nL1: .space 4\n.text\n"
     [] sh = "datacode" -> ".data\nD1: .word 1\nDC:\n    addi a0, a0, 1\n    ret\n.text\n"
     [] OTHER -> "") \o "main:\n" \o Render(is, 1, p)

\* apply the forced terminators
Forced(is, p, tm) ==
  [i \in 1..Len(is) |->
     IF i = Len(is) THEN tm[3]
     ELSE IF p[1] >= 2 /\ i = p[1] - 1 THEN tm[1]
     ELSE IF p[2] >= 2 /\ i = p[2] - 1 THEN tm[2]
     ELSE is[i]]

Init == phase = "start" /\ shape = "" /\ n = 0 /\ ins = <<>> /\ pos = <<0, 0, 0, 0, 0>> /\ terms = <<0, 0, 0>>
PickShape == /\ phase = "start"
             /\ \E k \in MinN..MaxN, s \in 1..Len(Shapes) : n' = k /\ shape' = Shapes[s]
             /\ phase' = "ins" /\ UNCHANGED <<ins, pos, terms>>
PickI == /\ phase = "ins" /\ Len(ins) < n
         /\ \E a \in Allowed(shape) : ins' = Append(ins, a)
         /\ UNCHANGED <<phase, shape, n, pos, terms>>
EndI  == phase = "ins" /\ Len(ins) = n /\ phase' = "labels" /\ UNCHANGED <<shape, n, ins, pos, terms>>
PickL == /\ phase = "labels"
         /\ \E a \in 0..(n + 1), b \in 0..(n + 1), k1 \in 0..(n + 1), k2 \in 0..(n + 1), c \in 1..(n + 1) :
              /\ (shape = "forced" => (a \in 2..n /\ (b = 0 \/ b \in (a + 1)..n) /\ k1 \in 1..n /\ k2 \in 0..n))
              /\ pos' = <<a, b, k1, k2, IF shape = "dup" THEN c ELSE 0>>
         /\ phase' = "terms" /\ UNCHANGED <<shape, n, ins, terms>>
PickT == /\ phase = "terms"
         /\ IF shape = "forced"
              THEN \E t1 \in Terminators, t2 \in Terminators, t3 \in {Sym("R"), Sym("X")} : terms' = <<t1, t2, t3>>
              ELSE terms' = <<0, 0, 0>>
         /\ phase' = "emit" /\ UNCHANGED <<shape, n, ins, pos>>
Emit  == /\ phase = "emit"
         /\ LET is == IF shape = "forced" THEN Forced(ins, pos, terms) ELSE ins IN
            PrintT("CASE " \o ToJson([text |-> Text(is, pos, shape), shape |-> shape,
                                      syms |-> [i \in 1..Len(is) |-> Alpha[is[i]].s],
                                      pos |-> pos, n |-> n]))
         /\ phase' = "done" /\ UNCHANGED <<shape, n, ins, pos, terms>>
Next == PickShape \/ PickI \/ EndI \/ PickL \/ PickT \/ Emit
Spec == Init /\ [][Next]_vars
=============================================================================
