CONSTANTS MaxK = 4
          NP = 12
INIT Init
NEXT Next
CHECK_DEADLOCK FALSE
