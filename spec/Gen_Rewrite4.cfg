CONSTANTS MaxK = 4
          NP = 14
INIT Init
NEXT Next
CHECK_DEADLOCK FALSE
