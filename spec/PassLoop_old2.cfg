SPECIFICATION Spec
CONSTANTS
  N = 3
  Facts = {p}
  MaxOut = 2
  Runs = 3
  FirstVisitCounts = TRUE
  WaitForVisited = FALSE
  UnvisitedIsTop = FALSE
  RootsAreEntries = TRUE
INVARIANTS SweepBound FixedPoint Stable AllVisited
PROPERTY Terminates
CHECK_DEADLOCK FALSE
