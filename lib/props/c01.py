"""C01 — claimed register and stack values are true on every execution."""
from props.execcommon import *

PID = "C01"


def run(tier, replay=None):
    out = Outcome(PID, tier)
    rt = json.load(open(replay))["witness"]["text"] if replay else None
    res = exec_verdicts(tier, rt)
    stats = fill(out, res, "C01:")
    out.assumptions += [
        "judged claim kinds: constant, address of a label, value at entry of the enclosing function plus constant (registers and stack slots); Memory*/RegisterWithScalar/CSR kinds are recorded but not judged",
        "'entry to the enclosing function' = register snapshot of the current dynamic frame (program start for main)",
        "executions that leave the supported subset (unaligned access, unknown ecall number, ra or saved registers not restored by a callee, callee writing above its entry sp, recursion deeper than 6, fuel 160) stop being judged and are never a violation",
        "only the first step with a false claim is reported per execution",
        "environment calls return 0 or an arbitrary non-zero value in their documented result registers and preserve all other registers",
    ]
    return out.finish(extra_cov=dict(stats, exhaustive=False, evaluations=stats["executions"],
                                     distinct_nontrivial=stats["programs_analysed"],
                                     rule="tlc -simulate over Gen_Values (every value-analysis rule: sp arithmetic, spills/reloads, folding, ecall results, calls, merges) and Gen_Flow 'forced' programs + repository/corpus programs; each analysed by the real pipeline and executed on the reference machine from 3 initial valuations x 2 ecall outcomes (4 combinations); every in/out register and stack claim judged at every executed instruction"))
