#!/usr/bin/env python3
"""Import the output of a seeding sub-agent (<dir>/patchN.diff, demoN.*, notesN.md) into /verif/seeded/<PID>-<k>/.
usage: lib/seedimport.py <PID> <out-dir> <first-k>"""
import json, os, shutil, sys
VERIF = os.path.dirname(os.path.dirname(os.path.abspath(__file__)))
pid, src, k0 = sys.argv[1], sys.argv[2], int(sys.argv[3])
n = 1
while os.path.exists(os.path.join(src, f"patch{n}.diff")):
    d = os.path.join(VERIF, "seeded", f"{pid}-{k0 + n - 1}")
    os.makedirs(d, exist_ok=True)
    shutil.copy(os.path.join(src, f"patch{n}.diff"), os.path.join(d, "patch.diff"))
    for ext in ("rs", "sh"):
        f = os.path.join(src, f"demo{n}.{ext}")
        if os.path.exists(f):
            shutil.copy(f, os.path.join(d, f"demo{n}.{ext}"))
    notes = os.path.join(src, f"notes{n}.md")
    if os.path.exists(notes):
        shutil.copy(notes, os.path.join(d, "notes.md"))
    meta = {"property": pid, "round": int(sys.argv[4]) if len(sys.argv) > 4 else 2, "source": "independent sub-agent given only the property text and a scratch worktree"}
    json.dump(meta, open(os.path.join(d, "meta.json"), "w"), indent=1)
    print("imported", d)
    n += 1
