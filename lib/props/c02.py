"""C02 — liveness covers every real use and is the least solution of its equations."""
from props.execcommon import *

PID = "C02"


def run(tier, replay=None):
    out = Outcome(PID, tier)
    rt = json.load(open(replay))["witness"]["text"] if replay else None
    # dynamic part: live monitor on the reference machine
    res = exec_verdicts(tier, rt)
    stats = fill(out, res, "C02:dynamic")
    # static part: recorded live sets = least fixed point of the documented equations
    wd = os.path.join(WORK, PID)
    rvh = build_harness()
    texts = res["texts"]
    evs = observe(rvh, texts, wd, "live")
    v, ress = validate_chunks("Trace_Live", evs, wd, "live.chunk", chunk=3000, heap="8g")
    for r in ress:
        out.add_tlc(r)
    for x in v:
        x["text"] = texts[x["id"] - 1]
    out.add_verdicts(v)
    nsets = sum(2 * len(e["cfg"]["nodes"]) for e in evs if e["cfgok"])
    out.assumptions += [
        "the reference equations are those documented in analysis/liveness.rs and docs/argument-guess.md, including: a jump/branch to a function label counts as a call site; function exits accumulate the live-out of all call sites",
        "ecall signatures come from the analyzer's own a7 facts (C01 validates them) and the documented ecall table",
        "dynamic monitor: a call defines ra and the temporaries, the callee's argument registers inherit the caller's state, a0-a7 carry the callee's state back; ecalls read a7 and their documented arguments and (re)define all caller-saved registers",
    ]
    return out.finish(extra_cov=dict(stats, live_sets_compared=nsets, exhaustive=False,
                                     evaluations=nsets + stats["executions"],
                                     distinct_nontrivial=stats["programs_analysed"],
                                     rule="same programs as C01; static: every live_in/live_out set, every function's arguments()/returns() and every unused-value warning compared with Dataflow!LiveLFP; dynamic: live monitor at every executed instruction"))
