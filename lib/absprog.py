"""Abstract programs (statement lists) with a renderer that applies surface styles, pseudo
expansions and renamings chosen by the TLA+ generators Gen_Rewrite / Gen_Rename (C13, C14),
and the extraction of diagnostics as (kind, instruction index, operand) triples."""

ABI = ["zero", "ra", "sp", "gp", "tp", "t0", "t1", "t2", "s0", "s1", "a0", "a1", "a2", "a3", "a4", "a5", "a6", "a7",
       "s2", "s3", "s4", "s5", "s6", "s7", "s8", "s9", "s10", "s11", "t3", "t4", "t5", "t6"]
R = {n: i for i, n in enumerate(ABI)}
TCLASS = [5, 6, 7, 28, 29, 30, 31]
SCLASS = [8, 9, 18, 19, 20, 21, 22, 23, 24, 25, 26, 27]


def S(mn, *ops, lab=""):
    """statement; operands: 'a0' register, 5 immediate, ('m', off, 'sp') memory, '@name' label"""
    out = []
    for o in ops:
        if isinstance(o, int):
            out.append({"k": "i", "v": o})
        elif isinstance(o, tuple):
            out.append({"k": "m", "off": o[1], "base": R[o[2]]})
        elif o.startswith("@"):
            out.append({"k": "l", "v": o[1:]})
        else:
            out.append({"k": "r", "v": R[o]})
    return {"lab": lab, "mn": mn, "ops": out}


PROGRAMS = {
    "clean-frame-call": [
        S("li", "a0", 5, lab="main"), S("call", "@fact"), S("mv", "a1", "a0"), S("li", "a0", 1), S("li", "a7", 1), S("ecall"),
        S("li", "a7", 10), S("ecall"),
        S("addi", "sp", "sp", -8, lab="fact"), S("sw", "ra", ("m", 0, "sp")), S("sw", "s0", ("m", 4, "sp")), S("mv", "s0", "a0"),
        S("li", "t0", 1), S("ble", "a0", "t0", "@base"), S("addi", "a0", "a0", -1), S("call", "@fact"), S("mul", "a0", "a0", "s0"),
        S("j", "@done"), S("li", "a0", 1, lab="base"), S("lw", "s0", ("m", 4, "sp"), lab="done"), S("lw", "ra", ("m", 0, "sp")),
        S("addi", "sp", "sp", 8), S("ret"),
    ],
    "violations": [
        S("li", "t0", 7, lab="main"), S("call", "@f"), S("add", "a0", "a0", "t0"), S("li", "t3", 65), S("li", "a7", 10), S("ecall"),
        S("li", "s1", 3, lab="f"), S("addi", "zero", "zero", 1), S("lw", "t1", ("m", 4, "sp")), S("mv", "a0", "t4"),
        S("li", "a0", 1), S("ret"), S("li", "a2", 2, lab="dead"), S("nop"),
    ],
    "loops-and-stack": [
        S("addi", "sp", "sp", -16, lab="main"), S("sw", "s1", ("m", 0, "sp")), S("li", "s1", 0), S("li", "t1", 10),
        S("bge", "s1", "t1", "@end", lab="loop"), S("addi", "s1", "s1", 1), S("beqz", "s1", "@loop"), S("bnez", "t1", "@loop"),
        S("lw", "s1", ("m", 0, "sp"), lab="end"), S("sw", "t1", ("m", 16, "sp")), S("addi", "sp", "sp", 16), S("li", "t2", 48),
        S("not", "t5", "t2"), S("neg", "t6", "t5"), S("seqz", "a1", "t6"), S("li", "a7", 93), S("mv", "a0", "a1"), S("ecall"),
    ],
    "all-registers": [
        S("li", "t0", 1, lab="main"), S("li", "t1", 2), S("li", "t2", 3), S("li", "t3", 4), S("li", "t4", 5), S("li", "t5", 6), S("li", "t6", 7),
        S("call", "@user"), S("add", "a0", "t0", "t1"), S("add", "a1", "t2", "t3"), S("add", "a2", "t4", "t5"), S("add", "a3", "a0", "t6"),
        S("add", "a4", "a1", "a2"), S("add", "a5", "a3", "a4"), S("mv", "a6", "a5"), S("mv", "a0", "a6"), S("li", "a7", 1), S("ecall"),
        S("mv", "a0", "gp"), S("mv", "a1", "tp"), S("li", "a7", 10), S("ecall"),
        S("mv", "s2", "s0", lab="user"), S("mv", "s3", "s1"), S("add", "s4", "s2", "s3"), S("add", "s5", "s4", "s4"), S("add", "s6", "s5", "s4"),
        S("add", "s7", "s6", "s5"), S("add", "s8", "s7", "s6"), S("add", "s9", "s8", "s7"), S("add", "s10", "s9", "s8"), S("add", "s11", "s10", "s9"),
        S("mv", "a0", "s11"), S("lw", "t5", ("m", 0, "sp")), S("lw", "t6", ("m", 4, "sp")), S("add", "a0", "t5", "t6"), S("ret"),
    ],
    "alias-labels": [
        S("li", "a0", 1, lab="start"), S("call", "@helper2"), S("mv", "a1", "a0"), S("call", "@worker"), S("add", "a0", "a0", "a1"),
        S("li", "a7", 1), S("ecall"), S("li", "a7", 10), S("ecall"),
        S("addi", "a0", "a0", 1, lab="helper+helper2"), S("addi", "a0", "a0", 2), S("ret"),
        S("li", "t0", 3, lab="worker+aaa_worker"), S("add", "a0", "a0", "t0"), S("li", "s1", 1), S("ret"),
    ],
    "shared-entry-aliases": [     # an entry with two labels that belongs to two functions (fall-through from the one before)
        S("li", "a0", 1, lab="start"), S("call", "@fn_a"), S("call", "@fn_b"), S("call", "@fn_c"), S("li", "a7", 10), S("ecall"),
        S("addi", "a0", "a0", 1, lab="fn_a"),
        S("addi", "a0", "a0", 2, lab="fn_b+fn_c"), S("li", "t0", 4), S("add", "a0", "a0", "t0"), S("ret"),
    ],
    "base-registers": [           # memory accessed through saved and temporary base registers (not sp)
        S("li", "a0", 1, lab="start"), S("call", "@f"), S("call", "@g"), S("li", "a7", 10), S("ecall"),
        S("sw", "s1", ("m", 0, "s0"), lab="f"), S("li", "s1", 7), S("add", "a0", "a0", "s1"), S("lw", "s1", ("m", 0, "s0")), S("ret"),
        S("mv", "s2", "a0", lab="g"), S("sw", "t0", ("m", 0, "s2")), S("lw", "t1", ("m", 4, "s2")), S("sw", "s3", ("m", 8, "t2")),
        S("li", "s3", 1), S("lw", "s3", ("m", 8, "t2")), S("add", "a0", "t1", "s3"), S("ret"),
    ],
    "moves": [                    # register copies that carry a tracked value (saved register parked in a temporary, frame pointer)
        S("li", "a0", 1, lab="start"), S("call", "@f"), S("call", "@g"), S("li", "a7", 1), S("ecall"), S("li", "a7", 10), S("ecall"),
        S("mv", "t0", "s0", lab="f"), S("li", "s0", 5), S("add", "a0", "a0", "s0"), S("mv", "s0", "t0"), S("ret"),
        S("addi", "sp", "sp", -16, lab="g"), S("sw", "s1", ("m", 0, "sp")), S("mv", "s1", "sp"), S("addi", "sp", "sp", -32),
        S("sw", "a0", ("m", 4, "sp")), S("lw", "a0", ("m", 4, "sp")), S("mv", "sp", "s1"), S("lw", "s1", ("m", 0, "sp")),
        S("addi", "sp", "sp", 16), S("ret"),
    ],
    "big-frame": [                # a frame of 4096 bytes allocated with sub and released with three addi
        S("li", "a0", 1, lab="start"), S("call", "@f"), S("li", "a7", 1), S("ecall"), S("li", "a7", 10), S("ecall"),
        S("li", "t0", 4096, lab="f"), S("sub", "sp", "sp", "t0"), S("sw", "s0", ("m", 8, "sp")), S("mv", "s0", "a0"),
        S("add", "a0", "a0", "s0"), S("lw", "s0", ("m", 8, "sp")), S("addi", "sp", "sp", 2047), S("addi", "sp", "sp", 2047),
        S("addi", "sp", "sp", 2), S("li", "t1", 8192), S("li", "t2", 4096), S("add", "t2", "t2", "t2"), S("sub", "a1", "t1", "t2"), S("ret"),
    ],
    "garbage-main": [             # top-level code and a function reading several never-assigned registers at once
        S("add", "a2", "s4", "s5", lab="start"), S("add", "a3", "t3", "t4"), S("sub", "a4", "s6", "t5"), S("add", "a0", "a2", "a3"),
        S("call", "@f"), S("add", "a0", "a0", "a4"), S("li", "a7", 1), S("ecall"), S("li", "a7", 10), S("ecall"),
        S("add", "a0", "t0", "t1", lab="f"), S("add", "a0", "a0", "t6"), S("ret"),
    ],
    "several-returns": [          # a function with two returns (the second becomes a jump to the exit) next to one that takes a1
        S("li", "a0", 0, lab="start"), S("call", "@foo"), S("li", "a1", 4), S("call", "@combine"), S("li", "a7", 1), S("ecall"),
        S("li", "a7", 10), S("ecall"),
        S("beq", "a0", "zero", "@foo_else", lab="foo"), S("li", "a0", 1), S("ret"),
        S("li", "a1", 9, lab="foo_else"), S("li", "a0", 2), S("ret"),
        S("add", "a0", "a0", "a1", lab="combine"), S("ret"),
    ],
    "handler-direct": [           # an interrupt handler installed through utvec (a function nobody calls), next to a called one
        S("la", "t0", "@isr", lab="start"), S("csrrw", "zero", 5, "t0"), S("li", "a0", 1), S("call", "@work"), S("li", "a7", 10), S("ecall"),
        S("li", "s0", 3, lab="work"), S("add", "a0", "a0", "s0"), S("ret"),
        S("csrrw", "t0", 64, "t0", lab="isr"), S("li", "s1", 1), S("csrrw", "t0", 64, "t0"), S("uret"),
    ],
    "handler-copied": [           # the handler's address goes through a register copy before it is installed
        S("la", "t0", "@isr", lab="start"), S("mv", "t1", "t0"), S("csrrw", "zero", 5, "t1"), S("li", "a0", 1), S("call", "@work"),
        S("li", "a7", 10), S("ecall"),
        S("li", "s0", 3, lab="work"), S("add", "a0", "a0", "s0"), S("ret"),
        S("csrrw", "t0", 64, "t0", lab="isr"), S("li", "s1", 1), S("csrrw", "t0", 64, "t0"), S("uret"),
    ],
    "two-functions": [
        S("li", "a0", 3, lab="start"), S("jal", "ra", "@g"), S("mv", "s2", "a0"), S("call", "@h"), S("add", "a0", "a0", "s2"),
        S("li", "a7", 10), S("ecall"),
        S("slli", "t0", "a0", 2, lab="g"), S("add", "a0", "a0", "t0"), S("beqz", "a0", "@gz"), S("addi", "a0", "a0", 1),
        S("ret", lab="gz"), S("li", "s3", 9, lab="h"), S("mv", "a0", "s3"), S("jalr", "zero", "ra", 0),
    ],
}


def fmt_imm(v, how, idx):
    if how == "hex":
        return ("-0x%x" % -v) if v < 0 else ("0x%x" % v)
    if how == "HEX":
        return ("-0X%X" % -v) if v < 0 else ("0X%X" % v)
    if how == "bin":
        return ("-0b" + bin(-v)[2:]) if v < 0 else ("0b" + bin(v)[2:])
    if how == "char" and 33 <= v <= 126 and chr(v) not in "'\\\"":
        return "'" + chr(v) + "'"
    return str(v)


def expand(st, on):
    """official expansion of a pseudo-instruction (or the pseudo form of a base one) - 1:1 rewrites only"""
    if not on:
        return st
    mn, ops = st["mn"], st["ops"]
    z = {"k": "r", "v": 0}
    ra = {"k": "r", "v": 1}
    zero_i = {"k": "i", "v": 0}
    new = None
    if mn == "mv":
        new = ("addi", [ops[0], ops[1], zero_i])
    elif mn == "li" and -2048 <= ops[1]["v"] <= 2047:
        new = ("addi", [ops[0], z, ops[1]])
    elif mn == "li" and ops[1]["v"] % 4096 == 0 and 4096 <= ops[1]["v"] <= 0x7ffff000:
        new = ("lui", [ops[0], {"k": "i", "v": ops[1]["v"] >> 12}])      # a multiple of 4096 is one lui
    elif mn == "j":
        new = ("jal", [z, ops[0]])
    elif mn == "call":
        new = ("jal", [ra, ops[0]])
    elif mn == "jal" and len(ops) == 2 and ops[0]["v"] == 1:
        new = ("call", [ops[1]])
    elif mn == "ret" and on == "expand-mem":
        new = ("jalr", [z, {"k": "m", "off": 0, "base": 1}])
    elif mn == "ret" and on == "expand-jr":
        new = ("jr", [ra])
    elif mn == "ret":
        new = ("jalr", [z, ra, zero_i])
    elif mn == "jalr" and len(ops) == 3 and ops[0]["v"] == 0 and ops[1]["v"] == 1 and ops[2]["v"] == 0:
        new = ("ret", [])
    elif mn == "nop":
        new = ("addi", [z, z, zero_i])
    elif mn == "beqz":
        new = ("beq", [ops[0], z, ops[1]])
    elif mn == "bnez":
        new = ("bne", [ops[0], z, ops[1]])
    elif mn == "ble":
        new = ("bge", [ops[1], ops[0], ops[2]])
    elif mn == "not":
        new = ("xori", [ops[0], ops[1], {"k": "i", "v": -1}])
    elif mn == "neg":
        new = ("sub", [ops[0], z, ops[1]])
    elif mn == "seqz":
        new = ("sltiu", [ops[0], ops[1], {"k": "i", "v": 1}])
    if new is None:
        return st
    return {"lab": st["lab"], "mn": new[0], "ops": new[1]}


def render(prog, style=None, regmap=None, labmap=None):
    """style: dict of dimension -> choice; sites: 'all' or 'odd' (which statements get the non-default style)"""
    style = style or {}
    regmap = regmap or {}
    labmap = labmap or {}
    lines = []
    for idx, st0 in enumerate(prog):
        on = style.get("sites", "all") == "all" or idx % 2 == 1
        g = (lambda k, d: style.get(k, d) if on else d)
        st = expand(st0, g("pseudo", "keep") if g("pseudo", "keep") != "keep" else False)
        sep = {"comma": ", ", "space": " ", "tabs": ",\t", "wide": "  ,  "}[g("sep", "comma")]
        cs = g("case", "lower")
        mn = st["mn"]
        if cs == "upper":
            mn = mn.upper()
        elif cs == "capital":
            mn = mn[:1].upper() + mn[1:]
        elif cs == "mixed":          # every letter chosen on its own: aDdI, lW, eCaLl
            mn = "".join(ch.upper() if i % 2 == 1 else ch for i, ch in enumerate(mn))
        elif cs == "tail":           # only the last letter
            mn = mn[:-1] + mn[-1:].upper()
        ops = []
        for o in st["ops"]:
            if o["k"] == "r":
                r = regmap.get(o["v"], o["v"])
                ops.append(("x%d" % r) if g("regs", "abi") == "num" else ("fp" if g("regs", "abi") == "fp" and r == 8 else ABI[r]))
            elif o["k"] == "i":
                how = g("imm", "dec")
                if how == "char" and mn.lower().startswith("csr") and o is st["ops"][1]:
                    how = "dec"      # the number of a CSR is not an immediate: it has no character notation
                ops.append(fmt_imm(o["v"], how, idx))
            elif o["k"] == "l":
                ops.append(labmap.get(o["v"], o["v"]))
            else:
                b = regmap.get(o["base"], o["base"])
                bn = ("x%d" % b) if g("regs", "abi") == "num" else ABI[b]
                if o["off"] == 0 and g("zero_off", "keep") == "omit":
                    ops.append("(" + bn + ")")
                else:
                    ops.append(fmt_imm(o["off"], g("imm", "dec") if g("imm", "dec") != "char" else "dec", idx) + "(" + bn + ")")
        indent = {"spaces": "    ", "tab": "\t", "none": "", "mixed": " \t  "}[g("indent", "spaces")]
        body = indent + mn + ((" " if sep != ",\t" else "\t") + sep.join(ops) if ops else "")
        if g("comment", "none") == "trailing":
            body += "  # note %d, with: punctuation; (and) 'quotes'" % idx
        if g("blank", "none") == "before":
            lines.append("")
        if g("comment", "none") == "line":
            lines.append("# a comment line before statement %d" % idx)
        if st["lab"]:
            labs = [labmap.get(x, x) for x in st["lab"].split("+")]      # "a+b": two labels on one instruction
            for extra in labs[:-1]:
                lines.append(extra + ":")
            lab = labs[-1]
            if g("label", "own-line") == "same-line":
                lines.append(lab + ": " + body.strip())
            else:
                lines.append(lab + ":")
                lines.append(body)
        else:
            lines.append(body)
    return "\n".join(lines) + "\n"


INSTR_KINDS = {"Arith", "IArith", "JumpLink", "JumpLinkR", "Basic", "Branch", "Store", "Load", "LoadAddr", "Csr", "CsrI"}


def diag_triples(ev):
    """[(kind, instruction index, operand)] for parse errors, the cfg error and the lints of an observe event
    (want: nodes, errors, lints).  operand = register number for register operands, else the role."""
    nodes = [n for n in ev.get("nodes", []) if n["k"] in INSTR_KINDS]
    labels = [n for n in ev.get("nodes", []) if n["k"] == "Label"]

    def locate(x):
        for i, n in enumerate(nodes):
            if n["file"] == x["file"] and n["r0"] <= x["r0"] and x["r1"] <= n["r1"]:
                for s in n["sub"]:
                    if s["r0"] == x["r0"] and s["r1"] == x["r1"] and not (n["r0"] == x["r0"] and n["r1"] == x["r1"]):
                        role = s["role"]
                        if role in ("rd", "rs1", "rs2"):
                            return [i, "reg:%d" % n[role]]
                        return [i, role]
                return [i, "instruction"]
        for i, n in enumerate(labels):
            if n["file"] == x["file"] and n["r0"] <= x["r0"] and x["r1"] <= n["r1"]:
                return [-1 - i, "label"]
        return [-1000, "nowhere"]
    out = []
    for e in ev.get("errors", []):
        out.append(["parse:" + e["kind"]] + locate(e))
    if ev.get("cfgok") is False and ev.get("cfgerr"):
        out.append(["cfg:" + ev["cfgerr"]["title"].split(":")[0]] + locate(ev["cfgerr"]))
    for l in ev.get("lints", []):
        out.append([l["code"]] + locate(l))
    return sorted(out)


def node_sigs(ev):
    """node-format signature list of the instruction nodes (for meaning preservation)"""
    return [{"k": n["k"], "op": n["op"], "rd": n["rd"], "rs1": n["rs1"], "rs2": n["rs2"], "imm": n["imm"],
             "lab": n["lab"], "csr": n["csr"]} for n in ev.get("nodes", []) if n["k"] in INSTR_KINDS]
