CONSTANTS WithInject = TRUE
          Cover = TRUE
INIT Init
NEXT Next
CHECK_DEADLOCK FALSE
