---------------------------- MODULE Gen_Decode ----------------------------
(* spec -> impl generator for instruction decoding (C08): every mnemonic of  *)
(* ISA!Mnemonics x every operand form of ISA!Forms x representative and      *)
(* boundary operand choices x register spelling.  A terminal state prints    *)
(* one CASE: the abstract choice and the line of assembly text denoting it.  *)
EXTENDS ISA, Json
VARIABLES phase, mn, form, o, spell
vars == <<phase, mn, form, o, spell>>

O(rd, rs1, rs2, imm, csr) == [rd |-> rd, rs1 |-> rs1, rs2 |-> rs2, imm |-> imm, lab |-> "L", csr |-> csr]
NoO == O(-1, -1, -1, 0, -1)

\* aliasing patterns and boundary registers
Triples == { <<5, 6, 7>>, <<10, 10, 11>>, <<10, 11, 10>>, <<8, 8, 8>>, <<0, 5, 6>>,
             <<31, 0, 27>>, <<1, 2, 3>>, <<17, 31, 0>> }
Pairs   == { <<5, 6>>, <<10, 10>>, <<0, 7>>, <<8, 0>>, <<31, 27>>, <<2, 1>> }
Singles == { 0, 1, 5, 8, 10, 31 }
Imm12   == { -2048, -1, 0, 1, 2047 }
Shamts  == { 0, 1, 31 }
Imm20   == { 0, 1, 524287, 524288, 1048575 }
Imm32   == { 0, 1, -1, 2047, -2048, 2048, 65536, MaxW, MinW + 1 }
Offs    == { -2048, -4, 0, 4, 2047 }
Csrs    == { 0, 5, 64, 3072 }
UImm    == { 0, 1, 31 }
IsShift(m) == m \in {"slli", "srli", "srai", "slliw", "srliw", "sraiw"}

Ops(m, f) ==
  CASE f = "rd,rs1,rs2" -> { O(t[1], t[2], t[3], 0, -1) : t \in Triples }
    [] f = "rd,rs1,imm" -> { O(p[1], p[2], -1, i, -1) : p \in Pairs, i \in (IF IsShift(m) THEN Shamts ELSE Imm12) }
    [] f = "rd,imm20"   -> { O(r, -1, -1, i, -1) : r \in Singles, i \in Imm20 }
    [] f = "lab"        -> { NoO }
    [] f = "rd,lab"     -> { O(r, -1, -1, 0, -1) : r \in Singles }
    [] f = "rs"         -> { O(-1, r, -1, 0, -1) : r \in Singles \ {0} }
    [] f = "rd,rs,imm"  -> { O(p[1], p[2], -1, i, -1) : p \in Pairs, i \in {-4, 0, 4} }
    [] f = "rs,imm"     -> { O(-1, r, -1, i, -1) : r \in Singles \ {0}, i \in {-4, 0, 8} }
    [] f = "rd,imm"     -> { O(r, -1, -1, i, -1) : r \in Singles, i \in Offs }
    [] f = "rs2,imm"    -> { O(-1, -1, r, i, -1) : r \in Singles, i \in Offs }
    [] f = "rs2,imm,tmp" -> { O(p[2], -1, p[1], i, -1) : p \in Pairs \ {<<8, 0>>}, i \in Offs }
    [] f = "rd,imm(rs)" -> { O(p[1], p[2], -1, i, -1) : p \in Pairs, i \in Offs }
    [] f = "rd,(rs)"    -> { O(p[1], p[2], -1, 0, -1) : p \in Pairs }
    [] f = "rs2,imm(rs1)" -> { O(-1, p[2], p[1], i, -1) : p \in Pairs, i \in Offs }
    [] f = "rs2,(rs1)"  -> { O(-1, p[2], p[1], 0, -1) : p \in Pairs }
    [] f = "rs2,lab,tmp" -> { O(p[2], -1, p[1], 0, -1) : p \in Pairs \ {<<8, 0>>} }
    [] f = "rs1,rs2,lab" -> { O(-1, p[1], p[2], 0, -1) : p \in Pairs }
    [] f = "rd,csr,rs1" -> { O(p[1], p[2], -1, 0, c) : p \in Pairs, c \in Csrs }
    [] f = "rd,csr,uimm" -> { O(r, -1, -1, i, c) : r \in {0, 5, 10}, i \in UImm, c \in Csrs }
    [] f = ""           -> { NoO }
    [] f = "rd,imm32"   -> { O(r, -1, -1, i, -1) : r \in {0, 5, 10, 17}, i \in Imm32 }
    [] f = "rd,rs"      -> { O(p[1], p[2], -1, 0, -1) : p \in Pairs }
    [] f = "rs,lab"     -> { O(-1, r, -1, 0, -1) : r \in Singles }
    [] f = "rd,csr"     -> { O(r, -1, -1, 0, c) : r \in {0, 5, 10}, c \in Csrs }
    [] f \in {"csr,rs", "rs,csr"} -> { O(-1, r, -1, 0, c) : r \in {0, 5, 10}, c \in Csrs }
    [] f = "csr,uimm"   -> { O(-1, -1, -1, i, c) : i \in UImm, c \in Csrs }

RN(sp, r) == IF sp = "x" THEN XName[r] ELSE IF sp = "fp" /\ r = 8 THEN "fp" ELSE RegName[r]
I(i) == ToString(i)

Text(m, f, oo, sp) ==
  LET rd == IF oo.rd >= 0 THEN RN(sp, oo.rd) ELSE "?"
      r1 == IF oo.rs1 >= 0 THEN RN(sp, oo.rs1) ELSE "?"
      r2 == IF oo.rs2 >= 0 THEN RN(sp, oo.rs2) ELSE "?"
      im == I(oo.imm)
      cs == I(oo.csr)
  IN
  CASE f = "rd,rs1,rs2" -> m \o " " \o rd \o ", " \o r1 \o ", " \o r2
    [] f \in {"rd,rs1,imm", "rd,rs,imm"} -> m \o " " \o rd \o ", " \o r1 \o ", " \o im
    [] f \in {"rd,imm20", "rd,imm32"} -> m \o " " \o rd \o ", " \o im
    [] f = "lab"        -> m \o " L"
    [] f = "rd,lab"     -> m \o " " \o rd \o ", L"
    [] f = "rs"         -> m \o " " \o r1
    [] f = "rs,imm"     -> m \o " " \o r1 \o ", " \o im
    [] f = "rd,imm"     -> m \o " " \o rd \o ", " \o im
    [] f = "rs2,imm"    -> m \o " " \o r2 \o ", " \o im
    [] f = "rs2,imm,tmp" -> m \o " " \o r2 \o ", " \o im \o ", " \o rd
    [] f = "rd,imm(rs)" -> m \o " " \o rd \o ", " \o im \o "(" \o r1 \o ")"
    [] f = "rd,(rs)"    -> m \o " " \o rd \o ", (" \o r1 \o ")"
    [] f = "rs2,imm(rs1)" -> m \o " " \o r2 \o ", " \o im \o "(" \o r1 \o ")"
    [] f = "rs2,(rs1)"  -> m \o " " \o r2 \o ", (" \o r1 \o ")"
    [] f = "rs2,lab,tmp" -> m \o " " \o r2 \o ", L, " \o rd
    [] f = "rs1,rs2,lab" -> m \o " " \o r1 \o ", " \o r2 \o ", L"
    [] f = "rd,csr,rs1" -> m \o " " \o rd \o ", " \o cs \o ", " \o r1
    [] f = "rd,csr,uimm" -> m \o " " \o rd \o ", " \o cs \o ", " \o im
    [] f = ""           -> m
    [] f = "rd,rs"      -> m \o " " \o rd \o ", " \o r1
    [] f = "rs,lab"     -> m \o " " \o r1 \o ", L"
    [] f = "rd,csr"     -> m \o " " \o rd \o ", " \o cs
    [] f = "csr,rs"     -> m \o " " \o cs \o ", " \o r1
    [] f = "rs,csr"     -> m \o " " \o r1 \o ", " \o cs
    [] f = "csr,uimm"   -> m \o " " \o cs \o ", " \o im

Init == phase = "start" /\ mn = "" /\ form = "" /\ o = NoO /\ spell = ""
PickMn   == phase = "start" /\ \E m \in Mnemonics : mn' = m /\ phase' = "mn" /\ UNCHANGED <<form, o, spell>>
PickForm == phase = "mn" /\ \E f \in Forms(mn) : form' = f /\ phase' = "form" /\ UNCHANGED <<mn, o, spell>>
PickOps  == phase = "form" /\ \E oo \in Ops(mn, form) : o' = oo /\ phase' = "ops" /\ UNCHANGED <<mn, form, spell>>
Emit     == /\ phase = "ops"
            /\ \E sp \in {"x", "abi", "fp"} :
                 /\ (sp = "fp" => 8 \in {o.rd, o.rs1, o.rs2})
                 /\ spell' = sp
                 /\ PrintT("CASE " \o ToJson([mn |-> mn, form |-> form, o |-> o, spell |-> sp,
                                              text |-> Text(mn, form, o, sp)]))
            /\ phase' = "done" /\ UNCHANGED <<mn, form, o>>
Next == PickMn \/ PickForm \/ PickOps \/ Emit
Spec == Init /\ [][Next]_vars
=============================================================================
