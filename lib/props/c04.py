"""C04 — convention-conforming programs produce no diagnostics."""
import os
from vlib import *
import absprog
import props.execcommon as ex

PID = "C04"


def diags_of(e):
    """all diagnostics of an observe event as {code, line, reg}"""
    out = []
    nodes = e.get("nodes", [])

    def reg_at(x):
        for n in nodes:
            if n["file"] == x["file"] and n["r0"] <= x["r0"] and x["r1"] <= n["r1"]:
                for s in n["sub"]:
                    if s["r0"] == x["r0"] and s["r1"] == x["r1"] and s["role"] in ("rd", "rs1", "rs2"):
                        return n[s["role"]]
        return -1
    for x in e.get("errors", []):
        out.append({"code": "parse:" + x["kind"], "line": x["l0"], "reg": -1})
    if e.get("cfgok") is False and e.get("cfgerr"):
        out.append({"code": "cfg:" + e["cfgerr"]["title"].split(":")[0], "line": e["cfgerr"]["l0"], "reg": -1})
    for x in e.get("lints", []):
        out.append({"code": x["code"], "line": x["l0"], "reg": reg_at(x)})
    return out


def generate(cfgname, n, tag, out=None):
    """the small covering family in full (every template x every way its result is consumed), the large one sampled"""
    r = run_tlc("Gen_Conform", cfg=cfgname, simulate=n, depth=10, workers=4, seed_=seed() * 37 + len(tag), heap="6g", timeout=3000)
    rc = run_tlc("Gen_Conform", cfg=cfgname + "_cover", workers=4, heap="6g", timeout=3000)
    if rc.rc != 0:
        raise ToolError("Gen_Conform cover family did not finish:\n" + rc.out[-2000:])
    if out is not None:
        out.add_tlc(rc)
    cases = rc.tagged("CASE") + r.tagged("CASE")
    seen, out = set(), []
    for c in cases:
        k = c["text"] + "|" + c["inj"]
        if k not in seen:
            seen.add(k)
            out.append(c)
    return out, r


def run(tier, replay=None):
    out = Outcome(PID, tier)
    wd = os.path.join(WORK, PID)
    rvh = build_harness()
    cases, gres = generate("Gen_Conform", 200 if tier == "quick" else 6000, "c04", out)
    out.add_tlc(gres)
    if replay:
        cases = [json.load(open(replay))["witness"]["case"]]
    # confirmation that the generator's programs behave conventionally: executed on the reference machine
    nconf = 80 if tier == "quick" else 800
    conf = cases[:: max(1, len(cases) // nconf)][:nconf]
    evs = ex.observe(rvh, [c["text"] for c in conf], wd, "confirm")
    v, ress = validate_chunks("Trace_Exec", evs, wd, "confirm.chunk", chunk=400, heap="8g", timeout=3000)
    stops = set()
    for r in ress:
        out.add_tlc(r)
        for st in r.tagged("STAT"):
            stops |= set(st["stops"])
    bad_stops = stops - {"exit", "out-of-fuel", "recursion-depth"}
    if bad_stops:
        raise ToolError(f"generator produced a program that leaves the convention on the reference machine: {bad_stops}")
    # spellings: the same programs also with numeric register names and tabs (C13 covers the rest)
    # "any subset of saved registers, any register spelling and layout": every program also with its saved and
    # temporary registers permuted inside their class (a conforming program stays conforming), tabs, numeric names
    import re
    SAVED = ["s0", "s1", "s2", "s3", "s4", "s5", "s6", "s7", "s8", "s9", "s10", "s11"]
    TEMPS = ["t0", "t1", "t2", "t3", "t4", "t5", "t6"]
    NUM = {"zero": 0, "ra": 1, "sp": 2, "gp": 3, "tp": 4, "t0": 5, "t1": 6, "t2": 7, "s0": 8, "s1": 9, "a0": 10, "a1": 11, "a2": 12,
           "a3": 13, "a4": 14, "a5": 15, "a6": 16, "a7": 17, "s2": 18, "s3": 19, "s4": 20, "s5": 21, "s6": 22, "s7": 23, "s8": 24,
           "s9": 25, "s10": 26, "s11": 27, "t3": 28, "t4": 29, "t5": 30, "t6": 31}
    regre = re.compile(r"(?<![\w.])(zero|ra|sp|gp|tp|[sta]\d+)(?![\w:])")

    def respell(t, i):
        k = i % 6
        if k == 1:
            return t.replace("    ", "\t")
        if k in (2, 3, 4):       # rotate the saved class by 3 / 7 / 11 and the temporaries by 2 / 4 / 6
            rs, rt = (3, 2) if k == 2 else ((7, 4) if k == 3 else (11, 6))
            m = {r: SAVED[(j + rs) % 12] for j, r in enumerate(SAVED)}
            m.update({r: TEMPS[(j + rt) % 7] for j, r in enumerate(TEMPS)})
            return regre.sub(lambda x: m.get(x.group(1), x.group(1)), t)
        if k == 5:               # numeric names for every register
            return regre.sub(lambda x: "x%d" % NUM[x.group(1)] if x.group(1) in NUM else x.group(1), t)
        return t
    hc = []
    for i, c in enumerate(cases):
        hc.append({"id": i + 1, "mode": "observe", "text": respell(c["text"], i), "want": ["nodes", "errors", "lints"]})
    tp, hevs = run_harness_par(rvh, hc, wd, "conform")
    tr = [{"id": e["id"], "ev": e["ev"], "prop": "C04", "case": {"inj": "", "codes": [], "line": -1, "alt": -1, "reg": -1},
           "diags": diags_of(e) if e["ev"] == "obs" else []} for e in hevs]
    v2, ress2 = validate_chunks("Trace_Diag", tr, wd, "diag.chunk", chunk=5000, heap="8g")
    for r in ress2:
        out.add_tlc(r)
    for x in v2:
        x["case"] = cases[x["id"] - 1]
        x["text"] = hc[x["id"] - 1]["text"]
        x["diags"] = tr[x["id"] - 1]["diags"]
    out.add_verdicts(v2)
    out.cov["traces_validated_against_impl"] = len(tr) + len(evs)
    out.sample({"text": cases[0]["text"]})
    out.assumptions += [
        "conforming by construction (Gen_Conform templates) and confirmed on the reference machine for a prefix of the programs: every execution ends in the exit ecall without leaving the convention (ra/sp/saved registers restored, no write above the entry sp)",
        "no diagnostic of any kind: parse errors, CFG errors, lints",
    ]
    return out.finish(extra_cov={
        "programs": len(cases), "confirmed_on_machine": len(conf), "machine_stops": sorted(stops), "exhaustive": False,
        "evaluations": len(cases), "distinct_nontrivial": len({c["text"] for c in cases}),
        "rule": "tlc -simulate over Gen_Conform: leaf templates (loop, if-else, stack local, print ecall, two arguments) x non-leaf templates (wrapper with saved register, recursion, two calls with two saved registers) x 5 frame layouts x call sequences of main (<= 3 calls, constants) x optional third function; six spellings (spaces / tabs / saved and temporary registers rotated inside their class by three different amounts / numeric names for every register); the covering family (every template x every way its result is consumed) in full",
    })
