"""C09 — every reported location designates exactly the text it is about."""
import os
from vlib import *
import corpus

PID = "C09"


def run(tier, replay=None):
    out = Outcome(PID, tier)
    wd = os.path.join(WORK, PID)
    rvh = build_harness()
    cases, gres = tlc_generate("Gen_Layout", coverage=True)
    out.add_tlc(gres)
    total = len(cases)
    if tier == "quick":
        k = seed() % 8
        cases = [c for i, c in enumerate(cases) if i % 8 == k]
    hc = []
    meta = []
    for n, c in enumerate(cases):
        if n % 5 == 0:        # every fifth layout ends without a final newline (spans unchanged)
            c = dict(c, text=c["text"].rstrip("\n"))
        if n % 4 == 1:        # every fourth layout has CR LF line endings: every offset moves by the number of line breaks before it
            t = c["text"]
            sh = lambda o: o + t[:o].count("\n")
            c = dict(c, text=t.replace("\n", "\r\n"),
                     spans=[dict(sp, s=sh(sp["s"]), e=sh(sp["e"]), ops=[dict(o, a=sh(o["a"]), b=sh(o["b"])) for o in sp["ops"]])
                            for sp in c["spans"]])
        if c["inc"]:
            files = {"main.s": '.include "inc.s"\n', "inc.s": c["text"]}
            g = 2
        else:
            files = {"main.s": c["text"]}
            g = 1
        hc.append({"mode": "observe", "files": files, "base": "main.s"})
        meta.append({"spans": c["spans"], "gfile": g, "free": False})
    # impl -> spec on programs the model did not choose (no spans: consistency only)
    for name, text in corpus.all_programs().items():
        for variant in (text, "\n" + text, "# header\n\t" + text.replace("\n", "\n\t")):
            hc.append({"mode": "observe", "files": {"main.s": variant}, "base": "main.s"})
            meta.append({"spans": [], "gfile": 1, "free": True})
    # the same programs cut into two files at every line (diagnostics that relate two places may then relate two
    # files: each location must still be consistent inside the file it names)
    for name, text in list(corpus.all_programs().items()) + [("violating", corpus.VIOLATING), ("conforming", corpus.CONFORMING)]:
        lines = text.rstrip("\n").split("\n")
        cuts = range(1, len(lines)) if tier == "thorough" else [k for k in range(1, len(lines)) if (k + len(name)) % 4 == seed() % 4]
        for k in cuts:
            head, tail = "\n".join(lines[:k]) + "\n", "\n".join(lines[k:]) + "\n"
            for files in ({"main.s": head + '.include "inc.s"\n', "inc.s": tail},
                          {"main.s": '.include "inc.s"\n' + tail, "inc.s": head}):
                hc.append({"mode": "observe", "files": files, "base": "main.s"})
                meta.append({"spans": [], "gfile": 1, "free": True})
    # one injected violation per program (Gen_Conform covering family), functions moved into an included file:
    # lints that relate a jump / call / store to a function are then spread over two files
    icases = run_tlc("Gen_Conform", cfg="Gen_Conform_inj_cover", workers=4, heap="6g", timeout=3000)
    out.add_tlc(icases)
    ic = icases.tagged("CASE")
    ic = [c for c in ic if c["inj"] in ("jump-into-function", "fall-through-into-function", "function-first-in-program",
                                        "saved-not-restored", "temp-after-call", "ra-not-restored", "sp-not-restored")]
    if tier == "quick":
        ic = [c for i, c in enumerate(ic) if i % 5 == seed() % 5][:80]
    lint_only = set()
    for c in ic:
        lines = c["text"].rstrip("\n").split("\n")
        if "F1:" not in lines:
            continue
        k = lines.index("F1:")
        head, tail = "\n".join(lines[:k]) + "\n", "\n".join(lines[k:]) + "\n"
        lint_only.add(len(hc))
        hc.append({"mode": "observe", "files": {"main.s": head + '.include "fns.s"\n', "fns.s": tail}, "base": "main.s"})
        meta.append({"spans": [], "gfile": 1, "free": True})
        # the label of the function stays behind, its first instruction is in the included file (what is reported at
        # a function's entry then has its label in one file and its text in another)
        head2, tail2 = "\n".join(lines[:k + 1]) + "\n", "\n".join(lines[k + 1:]) + "\n"
        lint_only.add(len(hc))
        hc.append({"mode": "observe", "files": {"main.s": head2 + '.include "fns.s"\n', "fns.s": tail2}, "base": "main.s"})
        meta.append({"spans": [], "gfile": 1, "free": True})
    # a literal that is still open where the file ends (no final newline): the error may not reach past the last character
    for t in ('main:\n    nop\n.asciz "abc', "main:\n    nop\n    li a0, 'a", "main:\n    nop\n    li a0, '", 'main:\n    nop\n.asciz "'):
        hc.append({"mode": "observe", "files": {"main.s": t}, "base": "main.s"})
        meta.append({"spans": [], "gfile": 1, "free": True})
        hc.append({"mode": "observe", "files": {"main.s": 'main:\n.include "inc.s"\n', "inc.s": t}, "base": "main.s"})
        meta.append({"spans": [], "gfile": 1, "free": True})
    # diagnostics located at a function's entry whose label and first instruction are in different files
    for files in corpus.ENTRY_SPLIT_FILES:
        hc.append({"mode": "observe", "files": dict(files), "base": "main.s"})
        meta.append({"spans": [], "gfile": 1, "free": True})
    # functions with several returns / shared tails (additional returns are rewritten by the function markup)
    for t in shared_programs(tier, out, part=4) + corpus.SHARED_PROGRAMS + [
            "main:\n    jal f\n    li a7, 10\n    ecall\nf:\n    beqz a0, L\n    ret\n.data\nL:\n    ret\n"]:
        hc.append({"mode": "observe", "files": {"main.s": t}, "base": "main.s"})
        meta.append({"spans": [], "gfile": 1, "free": True})
    if replay:
        w = json.load(open(replay))["witness"]
        hc = [dict(w["case"], mode="observe")]      # a witness of the binary's output is replayed through both readers
        meta = [w["meta"]]
    for i, h in enumerate(hc):
        h["id"] = i + 1
        h["want"] = ["files", "nodes", "errors", "lints", "cfg"] if (not replay and i in lint_only) else ["files", "toks", "nodes", "errors", "lints", "cfg"]
    tp, evs = run_harness_par(rvh, hc, wd, "pos")
    for e, m in zip(evs, meta):
        e["case"] = m
        e.setdefault("lints", [])
        e.setdefault("cfgerr", {})
        e.setdefault("cfgok", False)
    # the same judgement on what the rva binary prints (its own file reader): --json carries line, column and raw
    # offset of both ends; the text is the file as it is on disk
    if True:
        import subprocess, tempfile
        rva = build_cli()
        if replay:
            pick = [0]
        else:
            pick = [i for i, h in enumerate(hc) if len(h["files"]) <= 2][:: max(1, len(hc) // (150 if tier == "quick" else 1500))]
            pick += [i for i, h in enumerate(hc) if "\r\n" in h["files"].get("main.s", "")][:40]
        cli_evs = []
        with tempfile.TemporaryDirectory(dir=WORK) as td:
            for k, i in enumerate(sorted(set(pick))):
                d = os.path.join(td, str(k))
                os.makedirs(d)
                names = sorted(hc[i]["files"], key=lambda n: (n != "main.s", n))
                for n in names:
                    open(os.path.join(d, n), "w", newline="", encoding="utf-8").write(hc[i]["files"][n])
                try:
                    q = subprocess.run([rva, "lint", os.path.join(d, "main.s"), "--json"], stdout=subprocess.PIPE,
                                       stderr=subprocess.DEVNULL, timeout=20)
                    jd = json.loads(q.stdout.decode("utf-8", "replace"))["diagnostics"]
                except (subprocess.TimeoutExpired, ValueError, KeyError):
                    continue
                real = {os.path.realpath(os.path.join(d, n)): j + 1 for j, n in enumerate(names)}
                lints = []
                for x in jd:
                    f = real.get(os.path.realpath(x["file"]), 0) if x["file"] else 0
                    if f == 0:
                        continue          # an error attributed to no file is C16's business
                    st, en = x["range"]["start"], x["range"]["end"]
                    lints.append({"code": "cli:" + x["title"].split(":")[0], "file": f, "l0": st["line"], "c0": st["column"], "r0": st["raw"],
                                  "l1": en["line"], "c1": en["column"], "r1": en["raw"]})
                cli_evs.append({"ev": "obs", "id": len(hc) + 1, "files": [{"name": n, "text": [ord(c) for c in hc[i]["files"][n]]} for n in names],
                                "toks": [], "nodes": [], "errors": [], "lints": lints, "cfgok": True, "cfgerr": {}, "cfg": {"nodes": []},
                                "case": {"spans": [], "gfile": 1, "free": True}})
                hc.append({"mode": "cli", "files": hc[i]["files"], "base": "main.s"})
                meta.append({"spans": [], "gfile": 1, "free": True})
        evs += cli_evs
    for e in evs:
        # places of the graph nodes (the facts are not needed here)
        e["gnodes"] = [{"k": n["node"]["k"], "file": n["node"]["file"], "r0": n["node"]["r0"], "r1": n["node"]["r1"]}
                       for n in e.get("cfg", {}).get("nodes", [])]
        e.pop("cfg", None)
        e.setdefault("toks", [])
        e.setdefault("nodes", [])
        e.setdefault("errors", [])
        e.setdefault("files", [])
    v, ress = validate_chunks("Trace_Pos", evs, wd, "pos.chunk", chunk=1200, par=6, heap="6g", timeout=3000)
    for res in ress:
        out.add_tlc(res)
    for x in v:
        x["case"] = hc[x["id"] - 1]
        x["meta"] = meta[x["id"] - 1]
    out.add_verdicts(v)
    ntok = sum(len(t) for e in evs for t in e.get("toks", []))
    nloc = ntok + sum(len(e.get("nodes", [])) + len(e.get("lints", [])) + len(e.get("errors", [])) for e in evs)
    out.cov["traces_validated_against_impl"] = len(evs)
    out.sample({"text": cases[0]["text"], "spans": cases[0]["spans"][:2]})
    out.sample({"text": cases[len(cases) // 2]["text"], "inc": cases[len(cases) // 2]["inc"]})
    out.assumptions += [
        "range ends are inclusive (the CLI prints start..end columns and draws end-start+1 carets)",
        "a label definition's range includes its colon",
        "string/char tokens are checked for consistency only (escapes make value and source differ)",
        "every fourth layout uses CR LF line endings (offsets shifted accordingly by the driver)",
    ]
    return out.finish(extra_cov={
        "layouts_total": total, "layouts_run": len(cases), "locations_checked": nloc, "tokens_checked": ntok,
        "exhaustive": tier == "thorough",
        "evaluations": nloc, "distinct_nontrivial": len(cases),
        "rule": "corpus programs cut into two files at every line (both orders); Gen_Layout: 20 statement templates^2 (all jalr operand forms, escapes in character literals) x 3 leading-blank x 4 indent x 3 comment x same-line x included (quick: every 8th case, rotating with seed; thorough: all) + repository/corpus programs in 3 layouts; every token, node, operand token, parse error, cfg error and lint location judged",
    })
