CONSTANT MaxLen = 4
INIT Init
NEXT Next
CHECK_DEADLOCK FALSE
