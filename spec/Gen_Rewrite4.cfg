CONSTANTS MaxK = 4
          NP = 4
INIT Init
NEXT Next
CHECK_DEADLOCK FALSE
