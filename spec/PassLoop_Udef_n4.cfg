SPECIFICATION Spec
CONSTANTS
  N = 4
  Facts = {p}
  MaxOut = 2
  Runs = 2
  FirstVisitCounts = FALSE
  WaitForVisited = FALSE
  UnvisitedIsTop = TRUE
  RootsAreEntries = FALSE
INVARIANTS FixedPoint Stable AllVisited
CHECK_DEADLOCK FALSE
