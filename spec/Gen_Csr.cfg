CONSTANT N = 6
INIT Init
NEXT Next
CHECK_DEADLOCK FALSE
