"""C16 — every analysis failure is explained at a real place in the user's files."""
from props.cfgcommon import *

PID = "C16"


def run(tier, replay=None):
    out, stats, ngen = run_flow(PID, tier, replay, "C16:")
    out.assumptions += [
        "generated programs parse without errors (checked per event)",
        "'at its occurrence' = the error range is the text of an undefined label's use / a duplicate label's definition",
        "single-file programs: 'visible in default output' = the error is attributed to the base file",
    ]
    return out.finish(extra_cov=dict(stats, exhaustive=False, evaluations=stats["programs"],
                                     distinct_nontrivial=stats["programs_rejected_by_cfg"],
                                     rule="Gen_Flow: tlc -simulate n=3..7 over 4 shapes (+ exhaustive n=2 in the thorough tier); + repository/corpus programs; non-trivial = programs the CFG construction rejected"))
