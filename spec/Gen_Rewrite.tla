---------------------------- MODULE Gen_Rewrite ----------------------------
(* spec -> impl generator of meaning-preserving surface rewrites (C13): a    *)
(* composition of at most MaxK rewrites, each a (dimension, choice) pair,    *)
(* applied at every site or at every other site of a base program.           *)
EXTENDS Integers, Sequences, FiniteSets, TLC, Json
CONSTANTS MaxK, NP
VARIABLES phase, prog, style, k
vars == <<phase, prog, style, k>>

Dims == [sep |-> {"space", "tabs", "wide"}, indent |-> {"tab", "none", "mixed"}, comment |-> {"trailing", "line"},
         blank |-> {"before"}, case |-> {"upper", "capital", "mixed", "tail"}, regs |-> {"num", "fp"}, imm |-> {"hex", "HEX", "bin", "char"},
         label |-> {"same-line"}, zero_off |-> {"omit"}, pseudo |-> {"expand", "expand-mem", "expand-jr"}]
Default == [sep |-> "comma", indent |-> "spaces", comment |-> "none", blank |-> "none", case |-> "lower", regs |-> "abi",
            imm |-> "dec", label |-> "own-line", zero_off |-> "keep", pseudo |-> "keep", sites |-> "all"]

Init == phase = "start" /\ prog = 0 /\ style = Default /\ k = 0
PickProg == /\ phase = "start"
            /\ \E p \in 1..NP, s \in {"all", "odd"} : prog' = p /\ style' = [style EXCEPT !.sites = s]
            /\ phase' = "rewrites" /\ k' = 0
AddRewrite == /\ phase = "rewrites" /\ k < MaxK
              /\ \E d \in DOMAIN Dims : \E c \in Dims[d] :
                   /\ style[d] = Default[d]
                   /\ style' = [style EXCEPT ![d] = c]
              /\ k' = k + 1 /\ UNCHANGED <<phase, prog>>
Emit == /\ phase = "rewrites" /\ k >= 1
        /\ PrintT("CASE " \o ToJson([prog |-> prog, style |-> style, k |-> k]))
        /\ phase' = "done" /\ UNCHANGED <<prog, style, k>>
Next == PickProg \/ AddRewrite \/ Emit
Spec == Init /\ [][Next]_vars
=============================================================================
