main:
K1:
    li a7, 10
    ecall
    j K1
L1:
K2:
    jal L1
    ret
L2:
    bnez a0, K2
    jal ra, L2
    ret
