---------------------------- MODULE Trace_Fold ----------------------------
(* impl -> spec: every recorded MathOp::operate(x, y) result is validated    *)
(* against the RV32IM word semantics of Words.tla.  One event per batch.     *)
EXTENDS Words, Json, IOUtils, TLC, Sequences, Integers
Rec == ndJsonDeserialize(IOEnv.TRACE)
VARIABLES l
vars == <<l>>

\* class of an operand pair, so that different failures get different keys
Cls(op, x, y) ==
  CASE op \in {"add"} /\ ((x >= 0) = (y >= 0)) /\ ((AddW(x, y) >= 0) # (x >= 0)) -> "signed-overflow"
    [] op \in {"sub"} /\ ((x >= 0) # (y >= 0)) /\ ((SubW(x, y) >= 0) # (x >= 0)) -> "signed-overflow"
    [] op = "mul" /\ (MulhW(x, y) # (IF MulW(x, y) < 0 THEN -1 ELSE 0)) -> "signed-overflow"
    [] op \in {"sll", "srl", "sra"} /\ (y < 0 \/ y > 31) -> "shamt-out-of-0..31"
    [] op \in {"div", "rem"} /\ x = MinW /\ y = -1 -> "min-by-minus-one"
    [] op \in {"mulhu", "mulhsu"} /\ (x < 0 \/ y < 0) -> "negative-operand"
    [] OTHER -> "plain"

RECURSIVE JudgeRes(_, _, _, _)
JudgeRes(op, res, i, acc) ==
  IF i > Len(res) THEN acc
  ELSE LET r == res[i]
           exp == Fold(op, r.x, r.y)
           bad == IF ~r.ok THEN <<[key |-> "C08:fold:" \o op \o ":panic:" \o Cls(op, r.x, r.y),
                                   x |-> r.x, y |-> r.y, expected |-> exp, got |-> "panic"]>>
                  ELSE IF r.r # exp THEN <<[key |-> "C08:fold:" \o op \o ":wrong:" \o Cls(op, r.x, r.y),
                                   x |-> r.x, y |-> r.y, expected |-> exp, got |-> ToString(r.r)]>>
                  ELSE <<>>
       IN JudgeRes(op, res, i + 1, acc \o bad)

Judge(e) ==
  IF e.ev = "fold" THEN JudgeRes(e.op, e.res, 1, <<>>)
  ELSE <<[key |-> "C08:fold:" \o e.ev, x |-> 0, y |-> 0, expected |-> 0, got |-> e.ev]>>

RECURSIVE Report(_, _, _)
Report(e, bad, i) ==
  IF i > Len(bad) THEN TRUE
  ELSE PrintT("VERDICT " \o ToJson([id |-> e.id] @@ bad[i])) /\ Report(e, bad, i + 1)

Init == l = 1
Next == /\ l <= Len(Rec)
        /\ Report(Rec[l], Judge(Rec[l]), 1)
        /\ l' = l + 1
Spec == Init /\ [][Next]_vars
Accepted == IF TLCGet("stats").diameter = Len(Rec) + 1 THEN TRUE
            ELSE PrintT("TRACE-NOT-CONSUMED") /\ FALSE
=============================================================================
