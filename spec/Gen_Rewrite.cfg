CONSTANTS MaxK = 2
          NP = 9
INIT Init
NEXT Next
CHECK_DEADLOCK FALSE
