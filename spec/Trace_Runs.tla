----------------------------- MODULE Trace_Runs -----------------------------
(* impl -> spec (C10): repeated lint runs of the same files - in one process *)
(* through the library entry point, and in separate `rva` processes per      *)
(* output mode - must produce identical output, and no run may contain two   *)
(* diagnostics that agree in kind, location, message and related info.       *)
EXTENDS Integers, Sequences, FiniteSets, TLC, Json, IOUtils
Rec == ndJsonDeserialize(IOEnv.TRACE)
VARIABLES l
vars == <<l>>

SeqSet(s) == { s[i] : i \in 1..Len(s) }
RECURSIVE SetToStr(_)
SetToStr(S) == IF S = {} THEN "" ELSE LET x == CHOOSE y \in S : TRUE
                                      IN x \o (IF S = {x} THEN "" ELSE "|" \o SetToStr(S \ {x}))
\* titles on which two item lists disagree
Titles(items) == { items[i].title : i \in 1..Len(items) }
DiffTitles(a, b) ==
  LET sa == SeqSet(a) sb == SeqSet(b) d == (sa \ sb) \cup (sb \ sa) IN
  IF d = {} THEN {"(same items, different order)"} ELSE { x.kind : x \in d }

\* in-process runs: records; process runs: raw stdout strings
JudgeItems(e) ==
  LET rs == e.runs
      nd == { i \in 2..Len(rs) : rs[i] # rs[1] }
      dup(r) == { r[i].kind : i \in { j \in 1..Len(r) : \E k \in 1..Len(r) : k # j /\ r[k] = r[j] } }
      dups == UNION { dup(rs[i]) : i \in 1..Len(rs) }
  IN (IF nd = {} THEN {} ELSE { "C10:nondeterministic:library:" \o SetToStr(UNION { DiffTitles(rs[1], rs[i]) : i \in nd }) })
     \cup { "C10:duplicate:" \o t : t \in dups }
JudgeOut(e) ==
  IF \E i \in 2..Len(e.outs) : e.outs[i] # e.outs[1]
    THEN { "C10:nondeterministic:cli:" \o e.mode } ELSE {}
Judge(e) == CASE e.ev = "runs" -> JudgeItems(e) [] e.ev = "cli" -> JudgeOut(e) [] OTHER -> {}

RECURSIVE ReportSet(_, _)
ReportSet(e, bad) ==
  IF bad = {} THEN TRUE
  ELSE LET k == CHOOSE x \in bad : TRUE IN
       PrintT("VERDICT " \o ToJson([id |-> e.id, key |-> k])) /\ ReportSet(e, bad \ {k})
Init == l = 1
Next == l <= Len(Rec) /\ ReportSet(Rec[l], Judge(Rec[l])) /\ l' = l + 1
Spec == Init /\ [][Next]_vars
Accepted == IF TLCGet("stats").diameter = Len(Rec) + 1 THEN TRUE
            ELSE PrintT("TRACE-NOT-CONSUMED") /\ FALSE
=============================================================================
