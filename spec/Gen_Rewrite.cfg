CONSTANTS MaxK = 2
          NP = 8
INIT Init
NEXT Next
CHECK_DEADLOCK FALSE
