#!/usr/bin/env python3
"""MANIFEST.setup_cmd: build the framework from files on disk only (offline)."""
import os, sys
sys.path.insert(0, os.path.dirname(os.path.abspath(__file__)))
import vlib
os.makedirs(vlib.WORK, exist_ok=True)
os.makedirs(vlib.EVID, exist_ok=True)
vlib.build_harness()
vlib.build_cli()
print("setup ok")
