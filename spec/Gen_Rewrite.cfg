CONSTANTS MaxK = 2
          NP = 6
INIT Init
NEXT Next
CHECK_DEADLOCK FALSE
