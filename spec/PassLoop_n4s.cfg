SPECIFICATION Spec
CONSTANTS
  N = 4
  Facts = {p}
  MaxOut = 2
  Runs = 2
  FirstVisitCounts = TRUE
  WaitForVisited = TRUE
  UnvisitedIsTop = FALSE
  RootsAreEntries = TRUE
CONSTRAINT NoKill
INVARIANTS SweepBound FixedPoint Stable AllVisited
CHECK_DEADLOCK FALSE
