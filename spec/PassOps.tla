------------------------------- MODULE PassOps -------------------------------
(* The decisions taken inside the `while changed { for node in cfg }` loop of *)
(* AvailableValuePass::run, as pure operators.  PassLoop.tla (the as-built    *)
(* model that TLC explores over all small graphs) and Trace_PassLoop.tla (the *)
(* validation of step traces recorded from the real pass) both use these, so  *)
(* that what is model-checked is what the implementation is compared with.    *)
EXTENDS Integers, FiniteSets

\* `if !node.prevs().is_empty() && !node.prevs().iter().any(visited) && !roots.contains(node)`
ShouldWait(waitRule, prevsN, visited, roots, n) ==
  waitRule /\ prevsN # {} /\ prevsN \cap visited = {} /\ n \notin roots

\* in[n] = AND out[p] for all *visited* p in prev[n]   (`unwrap_or_default()`: no such p -> nothing known)
MeetOut(fout, vp) ==
  IF vp = {} THEN {}
  ELSE LET p0 == CHOOSE p \in vp : TRUE IN { f \in fout[p0] : \A p \in vp : f \in fout[p] }

\* a node that was promoted to a root is an entry of (unreachable) code: nothing is known there, whatever its
\* predecessors say   (`if roots.contains(node) { default } else { meet }`)
RootIn(pinned, roots, n, meet) == IF pinned /\ n \in roots THEN {} ELSE meet

\* `changed |= set_*_in(..); changed |= set_*_out(..); changed |= visited.insert(node)`
ChangedAfter(changed, newIn, newOut, oldIn, oldOut, firstVisit, firstVisitCounts) ==
  changed \/ newIn # oldIn \/ newOut # oldOut \/ (firstVisitCounts /\ firstVisit)

\* end of one `while changed` iteration
SweepOutcome(changed, waiting) ==
  IF changed THEN "again" ELSE IF waiting # 0 THEN "promote" ELSE "stop"

\* the bound on the number of sweeps of one run that TLC establishes for the model (one fact; all graphs with
\* N <= 4 and out-degree <= 2 reach exactly 2 * N + 1: one sweep per promoted root, one per step down the chain)
ModelSweepLimit(n) == 2 * n + 1
\* the cap applied to runs of the real pass, whose facts are many (every register and stack slot is one): each can
\* cost further sweeps, so the observed runs get a wider allowance - still "a small multiple of the program size"
SweepLimit(n) == 4 * n + 3
=============================================================================
