CONSTANTS MinN = 2
          MaxN = 2
INIT Init
NEXT Next
CHECK_DEADLOCK FALSE
