"""C18 — all output channels report the same diagnostics, well-formed and ordered."""
import os
import re
import subprocess
import tempfile
from vlib import *
import corpus

PID = "C18"
ANSI = re.compile(r"\x1b\[[0-9;]*m")
MULTI = {
    "main.s": '.include "lib.s"\nmain:\n    li t0, 1\n    call f\n    add a0, a0, t0\n    li a7, 10\n    ecall\n.include "tail.s"\n',
    "lib.s": "f:\n    li s1, 3\n    mv a0, t2\n    addi a0, a0\n    ret\n",
    "tail.s": "dead:\n    li a2, 2\n\tfrobnicate a0\n",
}
PROGRAMS = [
    {"main.s": corpus.VIOLATING},
    {"main.s": corpus.CONFORMING},
    {"main.s": "main:\n    li a0\n\t  addi zero, zero, 1   # comment\n    j nowhere\n"},
    {"main.s": "main:\n    li t0, 1\n    li t0, 2\n  \t lw t1, 4(sp)\n    li a7, 10\n    ecall\n"},
    {"main.s": "main:\r\n    li t0, 1\r\n\taddi zero, zero, 1\r\n    li a7, 10\r\n    ecall\r\n"},
    {"main.s": "    addi zero, zero, 1\nmain:\n    call main\n    li a7, 10\n    ecall\n"},
    MULTI,
    {"main.s": "main:\n" + "".join("    li t%d, %d\n" % (i % 3, i) for i in range(1, 13)) + "    li a7, 10\n    ecall\n"},
    {"main.s": "# header\nmain:\n" + "".join("    li t%d, %d\n" % (i % 3, i) for i in range(1, 125)) + "    li a7, 10\n    ecall\n"},
    {"main.s": "main:\n" + "\n" * 7 + "    li t0, 1\n    li t0, 2\n    addi zero, zero, 1\n    li t0, 3\n" + "\n" * 86 + "\tli t1, 4\n    li t1, 5\n    li t1, 6\n    li a7, 10\n    ecall\n"},
]


def cps(s):
    return [ord(c) for c in s]


def parse_compact(out, paths):
    res = []
    for line in out.splitlines():
        if not line.strip() or "found in other files" in line:
            continue
        m = re.match(r"^(Error|Warning|Info|Hint): (.*) in (.*) at (\d+) (\d+):(\d+)$", line)
        if not m:
            res.append({"level": "?", "title": line, "file": "?", "line": -1, "c0": -1, "c1": -1})
            continue
        res.append({"level": m.group(1), "title": m.group(2), "file": paths.get(m.group(3), m.group(3)),
                    "line": int(m.group(4)) - 1, "c0": int(m.group(5)) - 1, "c1": int(m.group(6)) - 1})
    return res


def parse_pretty(out, paths, texts):
    res = []
    blocks = [b for b in out.split("\n\n") if b.strip() and "found in other files" not in b]
    for b in blocks:
        lines = b.split("\n")
        lines = [x for x in lines if x != ""] if lines and lines[0] == "" else lines
        m = re.match(r"^(Error|Warning|Info|Hint): (.*)$", lines[0]) if lines else None
        f = re.match(r"^ in file: (.*)$", lines[1]) if len(lines) > 1 else None
        if not m or not f:
            res.append({"level": "?", "title": b[:60], "file": "?", "line": -1, "c0": -1, "c1": -1,
                        "excerpt": [], "marker": [], "srcline": [], "shown_line": -1, "crlf": False, "gutter_delta": 0})
            continue
        fname = paths.get(f.group(1), f.group(1))
        d = {"level": m.group(1), "title": m.group(2), "file": fname, "line": -1, "c0": -1, "c1": -1,
             "excerpt": [], "marker": [], "srcline": [], "shown_line": -1, "crlf": False, "gutter_delta": 0}
        if len(lines) >= 5:
            ex = re.match(r"^ (\d+) \| (.*)$", lines[3])
            mk = re.match(r"^ +\| (.*)$", lines[4])
            if ex and mk:
                d["shown_line"] = int(ex.group(1))
                d["excerpt"] = cps(ex.group(2))
                d["marker"] = cps(mk.group(1))
                # absolute columns: the text after the gutter must start at the same column in both rows
                d["gutter_delta"] = (len(lines[4]) - len(mk.group(1))) - (len(lines[3]) - len(ex.group(2)))
        res.append(d)
    return res


def run(tier, replay=None):
    out = Outcome(PID, tier)
    wd = os.path.join(WORK, PID)
    rvh = build_harness()
    rva = build_cli()
    progs = list(PROGRAMS)
    r2 = run_tlc("Gen_Flow", cfg="Gen_Flow_sim", simulate=40 if tier == "quick" else 600, depth=40, workers=4,
                 seed_=seed() * 23 + 2, heap="6g")
    r1 = run_tlc("Gen_Lines", cfg="Gen_Lines", coverage=False)
    out.add_tlc(r1)
    out.add_tlc(r2)
    flow = list(dict.fromkeys(c["text"] for c in r2.tagged("CASE")))
    # (a missing include reads differently through the two readers - "IO Error" vs "File not found" -, which is
    # a difference of the harness's in-memory reader, not of the channels: such lines are C15's business)
    lines = [c["text"] for c in r1.tagged("CASE") if ".include" not in c["text"]]
    rr = rng("c18")
    rr.shuffle(lines)
    progs += [{"main.s": t} for t in flow] + [{"main.s": t} for t in lines[: (40 if tier == "quick" else 800)]]
    for p in corpus.ORDER_PROGRAMS + corpus.VALUE_PROGRAMS + corpus.DUP_PROGRAMS:
        progs.append({"main.s": p})
    if replay:
        progs = [json.load(open(replay))["witness"]["files"]]
    # library entry point (in memory)
    hc = [{"id": i + 1, "mode": "observe", "files": f, "base": "main.s", "want": ["items"]} for i, f in enumerate(progs)]
    tp, hevs = run_harness_par(rvh, hc, wd, "lib")
    evs = []
    nruns = 0
    with tempfile.TemporaryDirectory(dir=WORK) as td:
        for k, files in enumerate(progs):
            he = hevs[k]
            if he["ev"] != "obs":
                evs.append({"ev": "skip", "id": k + 1})
                continue
            d = os.path.join(td, str(k))
            os.makedirs(d)
            paths = {}
            for n, c in files.items():
                fp = os.path.join(d, n)
                open(fp, "w", newline="").write(c)
                paths[os.path.realpath(fp)] = n
                paths[fp] = n

            def rv(*flags):
                nonlocal nruns
                nruns += 1
                p = subprocess.run([rva, "lint", os.path.join(d, "main.s")] + list(flags), stdout=subprocess.PIPE,
                                   stderr=subprocess.DEVNULL, timeout=30)
                return p.stdout.decode("utf-8", "replace")
            names = he["item_files"]
            lib = []
            for it in he["items"]:
                fn = names[it["file"] - 1] if it["file"] >= 1 and it["file"] <= len(names) else ""
                lib.append({"level": it["level"], "title": it["title"], "file": fn, "line": it["l0"], "c0": it["c0"],
                            "c1": it["c1"], "kind": it["title"].split(":")[0], "r0": it["r0"], "r1": it["r1"]})
            js_raw = rv("--json")
            json_ok = True
            js = []
            try:
                jd = json.loads(js_raw)
                for x in jd["diagnostics"]:
                    if not (isinstance(x["title"], str) and isinstance(x["level"], str) and isinstance(x["description"], str)):
                        json_ok = False
                    f = x["file"]
                    js.append({"level": x["level"], "title": x["title"], "file": paths.get(f, f if f is not None else ""),
                               "line": x["range"]["start"]["line"], "c0": x["range"]["start"]["column"],
                               "c1": x["range"]["end"]["column"],
                               "r0": x["range"]["start"]["raw"], "r1": x["range"]["end"]["raw"]})
                    if x["range"]["start"]["raw"] > x["range"]["end"]["raw"]:
                        json_ok = False
            except (ValueError, KeyError, TypeError):
                json_ok = False
            # --json with the other flags must not change anything
            if rv("--json", "--compact", "--all-files", "--no-color") != js_raw:
                json_ok = False
            comp = rv("--compact", "--no-color")
            comp_all = rv("--compact", "--no-color", "--all-files")
            pretty = rv("--no-color")
            pretty_all = rv("--no-color", "--all-files")
            pretty_color = rv()
            compact_color = rv("--compact")
            pa = parse_pretty(pretty_all, paths, files)
            # complete the pretty records with line/columns from the marker and the source
            for drec in pa:
                src = files.get(drec["file"], "")
                sl = src.split("\n")
                ln = drec["shown_line"] - 1
                line_txt = sl[ln] if 0 <= ln < len(sl) else ""
                drec["srcline"] = cps(line_txt)
                drec["crlf"] = line_txt.endswith("\r")
                drec["line"] = ln
                mk = "".join(chr(c) for c in drec["marker"])
                lead = len(line_txt) - len(line_txt.lstrip())
                if "^" in mk:
                    drec["c0"] = lead + mk.index("^")
                    drec["c1"] = lead + len(mk) - 1
            def strip_pretty(o):
                ps = parse_pretty(o, paths, files)
                for drec in ps:
                    src = files.get(drec["file"], "")
                    sl = src.split("\n")
                    ln = drec["shown_line"] - 1
                    line_txt = sl[ln] if 0 <= ln < len(sl) else ""
                    drec["line"] = ln
                    mk = "".join(chr(c) for c in drec["marker"])
                    lead = len(line_txt) - len(line_txt.lstrip())
                    if "^" in mk:
                        drec["c0"] = lead + mk.index("^")
                        drec["c1"] = lead + len(mk) - 1
                    for kk in ("excerpt", "marker", "srcline", "shown_line", "crlf", "gutter_delta"):
                        drec.pop(kk, None)
                return ps
            hidden = re.search(r"(\d+) diagnostics? found in other files", comp)
            evs.append({
                "ev": "channels", "id": k + 1, "base": "main.s", "library": lib,
                "json_ok": json_ok, "json": js,
                "compact": parse_compact(comp, paths), "compact_all": parse_compact(comp_all, paths),
                "pretty": strip_pretty(pretty), "pretty_all": pa,
                "pretty_color": strip_pretty(ANSI.sub("", pretty_color)),
                "hidden_count": int(hidden.group(1)) if hidden else 0,
                "nocolor_has_escape": ("\x1b" in comp) or ("\x1b" in pretty) or ANSI.sub("", compact_color) != comp,
            })
    v, ress = validate_chunks("Trace_Chan", evs, wd, "chan.chunk", chunk=3000, heap="8g")
    for r in ress:
        out.add_tlc(r)
    for x in v:
        x["files"] = progs[x["id"] - 1]
    out.add_verdicts(v)
    out.cov["traces_validated_against_impl"] = len(evs)
    out.sample({"files": PROGRAMS[6]})
    out.sample({"files": PROGRAMS[2]})
    out.assumptions += [
        "JSON has no file selection: it is compared with the library result (all files); text channels under --all-files likewise; without --all-files they must equal the base-file part and announce the number of hidden diagnostics",
        "pretty output is parsed back (level, title, file, shown line, marker columns) by the driver; a diagnostic whose file cannot be excerpted has no columns to compare and would be reported as a disagreement",
        "severity fixed per kind: kind = title up to the first ':'; checked across the whole run by the state variable `sev`",
    ]
    return out.finish(extra_cov={
        "programs": len(progs), "rva_runs": nruns, "exhaustive": False,
        "evaluations": nruns + len(progs), "distinct_nontrivial": len(progs),
        "rule": "hand-written mixed programs (parse errors + CFG errors + lints, tabs, CR LF, includes incl. a missing file), Gen_Flow simulation, faulty files of Gen_Lines, corpus; each run through rva in 8 flag combinations and through RVParser::run",
    })
