----------------------------- MODULE Trace_Exec -----------------------------
(* impl -> spec (dynamic reading of C01, C02, C03): the facts recorded from  *)
(* the real analysis of a program are judged by running the program on the   *)
(* reference machine (Machine.tla) from several initial valuations and       *)
(* environment-call outcomes, evaluating the monitors at every step.         *)
EXTENDS Machine, Json, IOUtils
Rec == ndJsonDeserialize(IOEnv.TRACE)
VARIABLES l
vars == <<l>>

Valuations == 0..2
Choices == {0, 1}
Fuel == 160

RunAll(e) ==
  LET cfg == e.cfg
      un == Unreach(cfg, e.lints)
      fin(v, c) == Run(cfg, un, MInit(v, c, Fuel))
  IN { <<p[1], p[2], fin(p[1], p[2])>> : p \in {<<0, 0>>, <<1, 1>>, <<2, 0>>, <<0, 1>>, <<3, 0>>} }

Runs(e) == IF e.ev = "obs" /\ e.cfgok THEN RunAll(e) ELSE {}
Viol(rs)  == UNION { SeqSet(t[3].viol) : t \in rs }
Dets(rs)  == UNION { { <<t[1], t[2], t[3].det[i]>> : i \in 1..Len(t[3].det) } : t \in rs }
Stops(rs) == { t[3].why : t \in rs }
Steps(rs) == IF rs = {} THEN 0 ELSE (CHOOSE t \in rs : \A u \in rs : t[3].steps >= u[3].steps)[3].steps

RECURSIVE ReportSet(_, _)
ReportSet(e, bad) ==
  IF bad = {} THEN TRUE
  ELSE LET k == CHOOSE x \in bad : TRUE IN
       PrintT("VERDICT " \o ToJson([id |-> e.id, key |-> k])) /\ ReportSet(e, bad \ {k})

Init == l = 1
Next == /\ l <= Len(Rec)
        /\ LET rs == Runs(Rec[l]) IN
             /\ ReportSet(Rec[l], Viol(rs))
             /\ IF Dets(rs) = {} THEN TRUE
                ELSE PrintT("DETAIL " \o ToJson([id |-> Rec[l].id, det |-> ToString(Dets(rs))]))
             /\ PrintT("STAT " \o ToJson([id |-> Rec[l].id, stops |-> Stops(rs), steps |-> Steps(rs)]))
        /\ l' = l + 1
Spec == Init /\ [][Next]_vars
Accepted == IF TLCGet("stats").diameter = Len(Rec) + 1 THEN TRUE
            ELSE PrintT("TRACE-NOT-CONSUMED") /\ FALSE
=============================================================================
