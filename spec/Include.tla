------------------------------ MODULE Include ------------------------------
(***************************************************************************)
(* Reference: `.include` as textual inclusion.  An include tree is a       *)
(* function from file names to sequences of line items                     *)
(*    [t |-> "l"]               an ordinary line                           *)
(*    [t |-> "inc", f |-> name] a line holding only `.include "name"`      *)
(* Flatten gives, for every line of the single file obtained by pasting    *)
(* each included file in place of its directive, the file and the 0-based  *)
(* line it originates from (Origin).                                       *)
(***************************************************************************)
EXTENDS Integers, Sequences, TLC

RECURSIVE FlattenFrom(_, _, _, _)
FlattenFrom(tree, name, i, depth) ==
  IF depth = 0 \/ i > Len(tree[name]) THEN <<>>
  ELSE LET it == tree[name][i] IN
       (IF it.t = "inc" THEN FlattenFrom(tree, it.f, 1, depth - 1)
        ELSE << [file |-> name, line |-> i - 1] >>)
       \o FlattenFrom(tree, name, i + 1, depth)
Flatten(tree, root) == FlattenFrom(tree, root, 1, 6)

\* a diagnostic of the flat file, attributed to where its text lives
MapBack(origin, d) ==
  IF d.line >= 0 /\ d.line < Len(origin)
    THEN [d EXCEPT !.file = origin[d.line + 1].file, !.line = origin[d.line + 1].line]
    ELSE d
=============================================================================
