SPECIFICATION Spec
CONSTANTS
  N = 4
  Facts = {p}
  MaxOut = 2
  Runs = 1
  FirstVisitCounts = FALSE
  WaitForVisited = FALSE
  UnvisitedIsTop = FALSE
  RootsAreEntries = FALSE
CONSTRAINT GenAt2
INVARIANTS SweepBound
CHECK_DEADLOCK FALSE
