----------------------------- MODULE Trace_Diag -----------------------------
(* impl -> spec (C04, C05): the diagnostics recorded for a generated program *)
(* are validated against the generator's own statement of what must appear:  *)
(*  C04: a conforming program gets no diagnostic of any kind;                *)
(*  C05: an injected violation gets a diagnostic of one of the expected      *)
(*       kinds located on the offending line (and register operand).         *)
EXTENDS Integers, Sequences, FiniteSets, TLC, Json, IOUtils
Rec == ndJsonDeserialize(IOEnv.TRACE)
VARIABLES l
vars == <<l>>
SeqSet(s) == { s[i] : i \in 1..Len(s) }

Judge(e) ==
  LET c == e.case ds == e.diags IN
  IF e.ev # "obs" THEN { e.prop \o ":" \o e.ev }
  ELSE IF e.prop = "C04"
    THEN { "C04:diagnostic-on-conforming-program:" \o ds[i].code : i \in 1..Len(ds) }
  ELSE
    LET codes == SeqSet(c.codes)
        lines == IF c.alt >= 0 THEN c.alt..c.line ELSE {c.line}    \* alt: first label line in front of the instruction
        hit == \E i \in 1..Len(ds) : ds[i].code \in codes /\ ds[i].line \in lines /\ (c.reg = -1 \/ ds[i].reg = c.reg)
        somewhere == \E i \in 1..Len(ds) : ds[i].code \in codes
        online == \E i \in 1..Len(ds) : ds[i].code \in codes /\ ds[i].line \in lines
    IN IF hit THEN {}
       ELSE IF online THEN { "C05:" \o c.inj \o ":reported-on-the-line-but-not-on-the-operand" }
       ELSE IF somewhere THEN { "C05:" \o c.inj \o ":reported-elsewhere" }
       ELSE { "C05:" \o c.inj \o ":not-reported" }

RECURSIVE ReportSet(_, _)
ReportSet(e, bad) ==
  IF bad = {} THEN TRUE
  ELSE LET k == CHOOSE x \in bad : TRUE IN
       PrintT("VERDICT " \o ToJson([id |-> e.id, key |-> k])) /\ ReportSet(e, bad \ {k})
Init == l = 1
Next == l <= Len(Rec) /\ ReportSet(Rec[l], Judge(Rec[l])) /\ l' = l + 1
Spec == Init /\ [][Next]_vars
Accepted == IF TLCGet("stats").diameter = Len(Rec) + 1 THEN TRUE
            ELSE PrintT("TRACE-NOT-CONSUMED") /\ FALSE
=============================================================================
