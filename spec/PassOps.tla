------------------------------- MODULE PassOps -------------------------------
(* The decisions taken inside the `while changed { for node in cfg }` loop of *)
(* AvailableValuePass::run, as pure operators.  PassLoop.tla (the as-built    *)
(* model that TLC explores over all small graphs) and Trace_PassLoop.tla (the *)
(* validation of step traces recorded from the real pass) both use these, so  *)
(* that what is model-checked is what the implementation is compared with.    *)
EXTENDS Integers, FiniteSets

\* `if !node.prevs().is_empty() && !node.prevs().iter().any(visited) && !roots.contains(node)`
ShouldWait(waitRule, prevsN, visited, roots, n) ==
  waitRule /\ prevsN # {} /\ prevsN \cap visited = {} /\ n \notin roots

\* in[n] = AND out[p] for all *visited* p in prev[n]   (`unwrap_or_default()`: no such p -> nothing known)
MeetOut(fout, vp) ==
  IF vp = {} THEN {}
  ELSE LET p0 == CHOOSE p \in vp : TRUE IN { f \in fout[p0] : \A p \in vp : f \in fout[p] }

\* `changed |= set_*_in(..); changed |= set_*_out(..); changed |= visited.insert(node)`
ChangedAfter(changed, newIn, newOut, oldIn, oldOut, firstVisit, firstVisitCounts) ==
  changed \/ newIn # oldIn \/ newOut # oldOut \/ (firstVisitCounts /\ firstVisit)

\* end of one `while changed` iteration
SweepOutcome(changed, waiting) ==
  IF changed THEN "again" ELSE IF waiting # 0 THEN "promote" ELSE "stop"

\* the bound on the number of sweeps of one run that TLC establishes for the model
\* (PassLoop.cfg: all graphs with N <= 3 reach 4 * N - 1; chains of dead loops that
\* are promoted to roots one at a time)
SweepLimit(n) == 4 * n + 3
=============================================================================
