CONSTANTS WithInject = FALSE
          Cover = TRUE
INIT Init
NEXT Next
CHECK_DEADLOCK FALSE
