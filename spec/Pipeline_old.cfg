SPECIFICATION PSpec
CONSTANTS
  N = 3
  Facts = {x}
  ExitFact = x
  MaxOut = 2
  Runs = 1
  FirstVisitCounts = TRUE
  WaitForVisited = TRUE
  UnvisitedIsTop = FALSE
  RootsAreEntries = TRUE
  Loop = FALSE
INVARIANTS SweepBound Consistent EdgesStopAtExits RoundsBound
PROPERTY PTerminates
CHECK_DEADLOCK FALSE
