----------------------------- MODULE Gen_Fold -----------------------------
(* spec -> impl generator for constant folding (C08): every folded operator *)
(* x every pair of the boundary grid.  One case per (op, x): the row of all  *)
(* y.  TLC enumerates the generator exhaustively.                            *)
EXTENDS Words, Json, TLC, Sequences, SequencesExt, FiniteSets
VARIABLES phase, op, x
vars == <<phase, op, x>>
BSeq == SetToSeq(Boundary)
Init == phase = "start" /\ op = "" /\ x = 0
PickOp == phase = "start" /\ \E o \in FoldOps : op' = o /\ phase' = "op" /\ x' = x
PickX  == phase = "op" /\ \E v \in Boundary : x' = v /\ phase' = "row" /\ op' = op
Emit   == /\ phase = "row" /\ phase' = "done" /\ UNCHANGED <<op, x>>
          /\ PrintT("CASE " \o ToJson([mode |-> "fold", op |-> op,
                                       pairs |-> [i \in 1..Len(BSeq) |-> <<x, BSeq[i]>>]]))
Next == PickOp \/ PickX \/ Emit
Spec == Init /\ [][Next]_vars
=============================================================================
