"""C17 — numeric literals mean what they say."""
import os
from vlib import *

PID = "C17"
MALFORMED = ["0x", "0b", "0b2", "12a", "0xg", "1_000", "0x1_0", "--5", "-", "0x-5", "5-3", "0b102",
             "0x0x1", "-0x", "1e3", "0b", "0o17", "-0b-1", "123456789012", "0xfffffffff", "-99999999999"]
# a plus sign is no part of a literal in this dialect, wherever it stands: the text is not one token, the error has to
# start inside it (like a malformed character literal)
MALFORMED_PLUS = ["-+5", "++7", "0x+10", "-0x+10", "0b+1", "+-5", "5+", "0x1+", "-+0x10"]
CHARS = [("'a'", 97), ("'0'", 48), ("' '", 32), ("'\\n'", 10), ("'\\\\'", 92), ("'\\''", 39), ("'\\0'", 0),
         ("'\\t'", 9), ("'~'", 126), ("'é'", 233), ("'€'", 8364), ("'\\u00e9'", 233), ("'\"'", 34)]
CTX_LINE = {"li": "li a0, {}", "addi": "addi a0, a1, {}", "lw": "lw a0, {}(sp)", "word": ".word {}",
            "csr": "csrr t0, {}", "lui": "lui a0, {}"}


def spell(v, notation, upper, lead0):
    neg = v < 0
    m = -v if neg else v
    if notation == "dec":
        s = ("0" if lead0 else "") + str(m)
    elif notation == "hex":
        s = ("0X" if upper else "0x") + ("0" if lead0 else "") + (format(m, "X") if upper else format(m, "x"))
    else:
        s = ("0B" if upper else "0b") + ("0" if lead0 else "") + format(m, "b")
    return ("-" if neg else "") + s


def mk(c):
    c.setdefault("hi", 0); c.setdefault("lo", 0); c.setdefault("neg", False); c.setdefault("upper", False)
    c.setdefault("lead0", False); c.setdefault("gen", False); c.setdefault("value", 0)
    c["cps"] = [ord(x) for x in c["lit"]]
    text = c["line"] + "\nnop\n"
    c["off"] = text.index(c["lit"])
    c["text"] = text
    return c


def run(tier, replay=None):
    out = Outcome(PID, tier)
    wd = os.path.join(WORK, PID)
    rvh = build_harness()
    cases, gres = tlc_generate("Gen_Lit", coverage=True)
    out.add_tlc(gres)
    for c in cases:
        c["gen"] = True
        mk(c)
    n_gen = len(cases)
    for lit in MALFORMED:
        for ctx in ("li", "addi", "word", "lw", "csr", "lui"):
            cases.append(mk({"kind": "num", "notation": "malformed", "ctx": ctx, "lit": lit,
                             "line": CTX_LINE[ctx].format(lit)}))
    for lit in MALFORMED_PLUS:
        for ctx in ("li", "addi", "word", "lw", "csr", "lui"):
            cases.append(mk({"kind": "badchar", "notation": "malformed-plus", "ctx": ctx, "lit": lit,
                             "line": CTX_LINE[ctx].format(lit)}))
    for lit, val in CHARS:
        cases.append(mk({"kind": "char", "notation": "char", "ctx": "li", "lit": lit, "value": val,
                         "line": CTX_LINE["li"].format(lit)}))
    ccases, cres = tlc_generate("Gen_CharLit")
    out.add_tlc(cres)
    for c in ccases:
        cases.append(mk(c))
    r = rng("lit")
    n_rand = 1500 if tier == "quick" else 40000
    for _ in range(n_rand):
        k = r.random()
        if k < 0.5:
            v = r.randint(-2**31, 2**32 - 1)
        elif k < 0.75:
            v = r.choice([1, -1]) * ((1 << r.randint(0, 33)) + r.randint(-2, 2))
        else:
            v = r.randint(-5000, 5000)
        nt = r.choice(["dec", "hex", "bin"])
        ctx = r.choice(["li", "addi", "lw", "word", "lui", "csr"])
        lit = spell(v, nt, r.random() < 0.5 and nt != "dec", r.random() < 0.3)
        cases.append(mk({"kind": "num", "notation": nt, "ctx": ctx, "lit": lit, "neg": v < 0,
                         "line": CTX_LINE[ctx].format(lit)}))
    if replay:
        w = json.load(open(replay))["witness"]
        cases = [w["case"]]
    hc = [{"id": i + 1, "mode": "observe", "text": c["text"], "want": ["nodes"]} for i, c in enumerate(cases)]
    tp, evs = run_harness_par(rvh, hc, wd, "lit")
    for e, c in zip(evs, cases):
        e["case"] = c
    write_ndjson(tp, evs)
    v, acc, res = tlc_validate("Trace_Lit", tp)
    out.add_tlc(res)
    if not acc or "SPEC-INCONSISTENT" in res.out:
        raise ToolError("literal trace not consumed or generator/Denote disagree:\n" +
                        "\n".join(l for l in res.out.splitlines() if "INCONSIST" in l)[:2000])
    for x in v:
        x["case"] = cases[x["id"] - 1]
    out.add_verdicts(v)
    out.cov["traces_validated_against_impl"] = len(evs)
    out.sample({"line": cases[0]["line"], "kind": "generated"})
    out.sample({"line": cases[n_gen]["line"], "kind": "malformed"})
    out.sample({"line": cases[-1]["line"], "kind": "random"})
    out.assumptions += [
        "literal grammar: '-'? (dec | 0x hex | 0b bin) or a character literal; '+' is not a sign in this dialect (unlexable, see C07)",
        "integers in 2^31..2^32-1 may be accepted (same 32 bits) or rejected; decimal/hex/binary alike",
        "lui accepts 0..2^20-1 only; negative lui immediates are not judged",
        "the word 'zero' is accepted as an immediate by the implementation's own unit tests and is not generated",
    ]
    return out.finish(extra_cov={
        "generated_cases": n_gen, "malformed_cases": (len(MALFORMED) + len(MALFORMED_PLUS)) * 6, "char_cases": len(CHARS),
        "random_cases": n_rand, "evaluations": len(cases),
        "distinct_nontrivial": len({c["line"] for c in cases}),
        "exhaustive": False,
        "rule": "Gen_Lit: 24 boundary magnitudes x 3 notations x sign x case x leading zero x 6 contexts (exhaustive) + malformed table + character literals + random 34-bit values; distinct = distinct source lines",
    })
