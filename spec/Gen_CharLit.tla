---------------------------- MODULE Gen_CharLit ----------------------------
(* spec -> impl generator for character literals (C17): the grammar           *)
(*   '<char>' | '\<escape>' | '\uXXXX' (four hexadecimal digits)              *)
(* with its well-formed members (value known) and its near misses: every      *)
(* position of the four digits replaced by a non-digit, too few digits, an    *)
(* unknown escape, an empty literal, two characters.                          *)
EXTENDS Integers, Sequences, TLC, Json
VARIABLES phase, body, value, ok
vars == <<phase, body, value, ok>>

Good == << [b |-> "\\u0041", v |-> 65], [b |-> "\\u00e9", v |-> 233], [b |-> "\\u20AC", v |-> 8364], [b |-> "\\u00E9", v |-> 233],
           [b |-> "\\u0000", v |-> 0], [b |-> "\\n", v |-> 10], [b |-> "\\t", v |-> 9], [b |-> "\\\\", v |-> 92], [b |-> "\\'", v |-> 39],
           [b |-> "\\0", v |-> 0], [b |-> "a", v |-> 97], [b |-> "~", v |-> 126], [b |-> " ", v |-> 32], [b |-> "\"", v |-> 34] >>
BadSyms == << "g", "+", "-", " ", "x", "_", "G", "." >>
Digits == << "0", "0", "4", "1" >>
WithBad(pos, s) == "\\u" \o (IF pos = 1 THEN s ELSE Digits[1]) \o (IF pos = 2 THEN s ELSE Digits[2])
                        \o (IF pos = 3 THEN s ELSE Digits[3]) \o (IF pos = 4 THEN s ELSE Digits[4])
Bad == << "\\u", "\\u0", "\\u00", "\\u004", "\\u00411", "\\q", "\\x41", "", "ab", "\\u 041", "\\U0041" >>

Init == phase = "start" /\ body = "" /\ value = 0 /\ ok = TRUE
Pick == /\ phase = "start"
        /\ \/ \E i \in 1..Len(Good) : body' = Good[i].b /\ value' = Good[i].v /\ ok' = TRUE
           \/ \E p \in 1..4, s \in 1..Len(BadSyms) : body' = WithBad(p, BadSyms[s]) /\ value' = 0 /\ ok' = FALSE
           \/ \E i \in 1..Len(Bad) : body' = Bad[i] /\ value' = 0 /\ ok' = FALSE
        /\ phase' = "emit"
Emit == /\ phase = "emit"
        /\ \E ctx \in {"li", "word"} :
             LET lit == "'" \o body \o "'" IN
             PrintT("CASE " \o ToJson([kind |-> (IF ok THEN "char" ELSE "badchar"), notation |-> "char", ctx |-> ctx, lit |-> lit, value |-> value,
                                       line |-> (IF ctx = "li" THEN "li a0, " \o lit ELSE ".word " \o lit)]))
        /\ phase' = "done" /\ UNCHANGED <<body, value, ok>>
Next == Pick \/ Emit
Spec == Init /\ [][Next]_vars
=============================================================================
