------------------------------- MODULE Gen_Csr -------------------------------
(* spec -> impl generator (C12, C19, C06): programs around the control/status *)
(* registers and memory addressed through a value read from one - the part   *)
(* of the value analysis with its own memory-location kinds and rules.  Every *)
(* sequence of N symbols over the alphabet, followed by a print and an exit;  *)
(* a forward label K may stand before any instruction.                        *)
EXTENDS Integers, Sequences, TLC, Json
CONSTANT N
VARIABLES phase, ins, kpos
vars == <<phase, ins, kpos>>
Alpha == << "csrrw t0, 64, zero", "csrr t0, 64", "csrrwi zero, 64, 3", "csrrw zero, 64, t1", "li t1, 7", "li t3, 9",
            "sw t1, 0(t0)", "sw t3, 0(t0)", "sw t1, -8(t0)", "lw t2, 0(t0)", "lw t2, -8(t0)", "bnez a0, K",
            "li a7, 10\n    ecall", "mv t0, t1" >>
RECURSIVE Render(_, _, _)
Render(is, i, k) ==
  (IF k = i THEN "K:\n" ELSE "")
  \o (IF i > Len(is) THEN "" ELSE "    " \o Alpha[is[i]] \o "\n" \o Render(is, i + 1, k))
Text(is, k) == "main:\n" \o Render(is, 1, k) \o "    mv a0, t2\n    li a7, 1\n    ecall\n    li a7, 10\n    ecall\n"
Init == phase = "ins" /\ ins = <<>> /\ kpos = 0
Add  == phase = "ins" /\ Len(ins) < N /\ \E a \in 1..Len(Alpha) : ins' = Append(ins, a) /\ UNCHANGED <<phase, kpos>>
Emit == /\ phase = "ins" /\ Len(ins) = N
        /\ \E k \in 2..(N + 1) : kpos' = k
        /\ PrintT("CASE " \o ToJson([text |-> Text(ins, kpos'), n |-> N]))
        /\ phase' = "done" /\ UNCHANGED ins
Next == Add \/ Emit
Spec == Init /\ [][Next]_vars
=============================================================================
