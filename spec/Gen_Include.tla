---------------------------- MODULE Gen_Include ----------------------------
(* spec -> impl generator of include cuttings (C15): a program of N lines is *)
(* cut at line boundaries into an include tree: a segment [a,b] goes to      *)
(* f1.s, optionally a sub-segment [c,d] of it to f2.s (depth 2), optionally  *)
(* a later segment [e,f] of the base file to f3.s; every file with or        *)
(* without a trailing newline.  Also fault plans: the directive of f1 names  *)
(* a missing / unreadable file or the file includes itself / its parent.     *)
EXTENDS Integers, Sequences, TLC, Json
CONSTANT N
VARIABLES phase, plan
vars == <<phase, plan>>
MaxSeg == 5
Segs(lo, hi) == { <<x, y>> \in (lo..hi) \X (lo..hi) : x <= y /\ y - x < MaxSeg }
None == <<0, 0>>
Faults == {"none", "none", "none", "notfound", "io", "self", "cycle"}
Init == phase = "start" /\ plan = <<>>
Pick == /\ phase = "start"
        /\ \E s1 \in Segs(1, N) :
           \E s2 \in {None} \cup Segs(s1[1], s1[2]) :
           \E s3 \in {None} \cup Segs(s1[2] + 1, N) :
           \E nl \in [1..4 -> BOOLEAN], flt \in Faults :
             /\ (flt # "none" => (s2 = None /\ s3 = None))
             /\ plan' = [s1 |-> s1, s2 |-> s2, s3 |-> s3, nl |-> nl, fault |-> flt, n |-> N]
        /\ phase' = "emit"
Emit == phase = "emit" /\ PrintT("CASE " \o ToJson(plan)) /\ phase' = "done" /\ plan' = plan
Next == Pick \/ Emit
Spec == Init /\ [][Next]_vars
=============================================================================
