CONSTANTS MaxK = 4
          NP = 8
INIT Init
NEXT Next
CHECK_DEADLOCK FALSE
