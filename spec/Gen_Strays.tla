----------------------------- MODULE Gen_Strays -----------------------------
(* spec -> impl generator for C07 (and C06): one stray symbol - every         *)
(* printable ASCII punctuation mark and a digit - alone on a line, before,    *)
(* inside or after an instruction, at every position of a three-line file,    *)
(* with the line-deleted twin.  (Gen_Lines holds the hand-picked faults; a    *)
(* comma is left out: the lexer documents it as a blank.)                     *)
EXTENDS Integers, Sequences, TLC, Json
CONSTANT NL
VARIABLES phase, goods, sym, place, badpos, ending
vars == <<phase, goods, sym, place, badpos, ending>>

Good == << "addi a0, a0, 1", "L1:", "ecall", "", "# only a comment" >>
Syms == << ".", "(", ")", ":", "-", "+", "@", ";", "\\", "%", "$", "!", "5", "=", "[", "]", "{", "}", "*", "/",
           "&", "|", "~", "^", "<", ">", "?", "`", "_" >>
Places == << "alone", "before", "inside", "after", "glued-after" >>
BadLine(s, p) ==
  CASE p = "alone"  -> s
    [] p = "before" -> s \o " addi a0, a0, 1"
    [] p = "inside" -> "addi a0, " \o s \o " a0, 1"
    [] p = "after"  -> "addi a0, a0, 1 " \o s
    [] p = "glued-after" -> "addi a0, a0, 1" \o s
Endings == {"lf", "lf-nofinal"}
EOL(e) == "\n"
RECURSIVE Join(_, _, _)
Join(ls, i, e) ==
  IF i > Len(ls) THEN ""
  ELSE ls[i] \o (IF i = Len(ls) /\ e = "lf-nofinal" THEN "" ELSE EOL(e)) \o Join(ls, i + 1, e)
Lines(gs, t, p) == [i \in 1..NL |-> IF i = p THEN t ELSE Good[gs[IF i < p THEN i ELSE i - 1]]]
Without(ls, p) == [i \in 1..(Len(ls) - 1) |-> IF i < p THEN ls[i] ELSE ls[i + 1]]

Init == phase = "start" /\ goods = <<>> /\ sym = 1 /\ place = 1 /\ badpos = 1 /\ ending = "lf"
PickGoods == /\ phase = "start"
             /\ \E gs \in [1..(NL - 1) -> 1..Len(Good)] : goods' = gs
             /\ phase' = "goods" /\ UNCHANGED <<sym, place, badpos, ending>>
PickBad == /\ phase = "goods"
           /\ \E s \in 1..Len(Syms), q \in 1..Len(Places), p \in 1..NL : sym' = s /\ place' = q /\ badpos' = p
           /\ phase' = "bad" /\ UNCHANGED <<goods, ending>>
Emit == /\ phase = "bad"
        /\ \E e \in Endings :
             /\ ending' = e
             /\ LET ls == Lines(goods, BadLine(Syms[sym], Places[place]), badpos) IN
                PrintT("CASE " \o ToJson([text |-> Join(ls, 1, e), twin |-> Join(Without(ls, badpos), 1, e),
                                          badline |-> badpos - 1,
                                          fault |-> "stray-" \o Places[place] \o ":" \o Syms[sym], ending |-> e, nl |-> NL]))
        /\ phase' = "done" /\ UNCHANGED <<goods, sym, place, badpos>>
Next == PickGoods \/ PickBad \/ Emit
Spec == Init /\ [][Next]_vars
=============================================================================
