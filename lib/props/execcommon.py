"""Shared pipeline of the machine-based (dynamic) checks: programs from Gen_Values, Gen_Flow
and the corpus -> real analysis -> Trace_Exec (reference machine + monitors).  The verdicts
serve C01 (claims), C02 (live monitor) and C03 (edge monitor); they are cached under
work/EXEC keyed by the content of /repo's sources, the specification, seed and tier, so that
the three checks of one session share one run."""
import glob
import hashlib
import os
from vlib import *
import corpus


def tree_key(tier):
    h = hashlib.sha1()
    pats = [REPO + "/riscv_analysis/src/**/*.rs", REPO + "/riscv_analysis/Cargo.toml", REPO + "/Cargo.lock",
            os.path.join(SPEC, "*"), os.path.join(HARNESS, "src", "*.rs"), os.path.join(VERIF, "lib", "**", "*.py")]
    for p in pats:
        for f in sorted(glob.glob(p, recursive=True)):
            if os.path.isfile(f):
                h.update(f.encode())
                h.update(open(f, "rb").read())
    h.update(f"{seed()}:{tier}".encode())
    return h.hexdigest()


def programs(tier):
    nval = 130 if tier == "quick" else 2500
    nflow = 250 if tier == "quick" else 4000
    r1 = run_tlc("Gen_Values", cfg="Gen_Values_sim", simulate=nval, depth=30, workers=4,
                 seed_=seed() * 31 + 5, timeout=3000)
    r2 = run_tlc("Gen_Flow", cfg="Gen_Flow_sim", simulate=nflow, depth=40, workers=4,
                 seed_=seed() * 17 + 3, timeout=3000, heap="6g")
    rb, _ = tlc_generate("Gen_Branch"), None
    re_, _ = tlc_generate("Gen_Ecall"), None
    texts = [c["text"] for c in rb[0]] + [c["text"] for c in re_[0]]
    texts += [c["text"] for c in r1.tagged("CASE")]
    texts += [c["text"] for c in r2.tagged("CASE") if c["shape"] == "forced"]
    texts += list(corpus.all_programs().values())
    texts += corpus.VALUE_PROGRAMS
    rk = tlc_generate("Gen_Blocks")
    bl = [c["text"] for c in rk[0]]
    texts += bl if tier == "thorough" else [t for i, t in enumerate(bl) if i % 9 == seed() % 9]
    texts += corpus.EXIT_PROGRAMS + corpus.STACK_PROGRAMS
    # constant folding seen through the claims: every operator on boundary operands (all in the thorough tier)
    rf = tlc_generate("Gen_FoldProg")
    ext = {0, -1, 1, 2147483647, -2147483648}     # the extreme pairs always, the rest rotating with the seed
    texts += [c["text"] for i, c in enumerate(rf[0])
              if tier == "thorough" or (c["x"] in ext and c["y"] in ext) or c["op"].startswith("z:") or i % 6 == seed() % 6]
    texts += shared_programs(tier, part=3)
    # small-scope exhaustiveness: every program of 2 / 3 instructions over five 12-symbol slices of the rule groups
    s2 = [c["text"] for c in tlc_generate("Gen_Slice", cfg="Gen_Slice2")[0]]
    s3 = [c["text"] for c in tlc_generate("Gen_Slice", cfg="Gen_Slice")[0]]
    if tier == "thorough":
        texts += s2 + s3
    else:
        texts += [t for i, t in enumerate(s2) if i % 4 == seed() % 4] + [t for i, t in enumerate(s3) if i % 40 == seed() % 40]
    return list(dict.fromkeys(texts)), [r1, r2, rb[1], re_[1], rk[1], rf[1]]


def observe(rvh, texts, wd, name):
    hc = [{"id": i + 1, "mode": "observe", "text": t, "want": ["cfg", "lints"]} for i, t in enumerate(texts)]
    tp, evs = run_harness_par(rvh, hc, wd, name)
    for e in evs:
        e.setdefault("lints", [])
        e.setdefault("cfg", {"nodes": [], "funcs": []})
        e.setdefault("cfgok", False)
    return evs


def exec_verdicts(tier, replay_text=None):
    """returns dict(verdicts, stats, texts, tlc=[(generated, distinct)])"""
    wd = os.path.join(WORK, "EXEC")
    os.makedirs(wd, exist_ok=True)
    rvh = build_harness()
    key = tree_key(tier)
    cpath = os.path.join(wd, f"cache-{key}.json")
    if replay_text is None and os.path.exists(cpath):
        log("[exec] reusing machine verdicts computed earlier in this session for the same sources/seed/tier")
        return json.load(open(cpath))
    if replay_text is not None:
        texts, gres = [replay_text], []
    else:
        texts, gres = programs(tier)
    evs = observe(rvh, texts, wd, "exec")
    v, ress = validate_chunks("Trace_Exec", evs, wd, "exec.chunk", chunk=400, heap="8g", timeout=3000)
    stats, dets = [], {}
    for r in ress:
        stats += r.tagged("STAT")
        for d in r.tagged("DETAIL"):
            dets[d["id"]] = d["det"]
    for x in v:
        if x["id"] in dets:
            x["where"] = dets[x["id"]]
    stops = {}
    for st in stats:
        for s in st["stops"]:
            stops[s] = stops.get(s, 0) + 1
    res = {
        "verdicts": v, "texts": texts,
        "tlc": [(r.generated, r.distinct) for r in gres + ress],
        "stats": {"programs": len(texts), "programs_analysed": sum(1 for e in evs if e["cfgok"]),
                  "executions": 5 * sum(1 for e in evs if e["cfgok"]),
                  "machine_steps_longest_run_sum": sum(st["steps"] for st in stats),
                  "stop_reasons": stops,
                  "unobservable": sum(1 for e in evs if e["ev"] != "obs")},
    }
    if replay_text is None:
        json.dump(res, open(cpath, "w"))
    return res


def fill(out, res, prefix):
    for g, d in res["tlc"]:
        out.cov["states"] += d
        out.cov["transitions"] += g
    mine = [x for x in res["verdicts"] if x["key"].startswith(prefix)]
    for x in mine:
        x["text"] = res["texts"][x["id"] - 1]
    out.add_verdicts(mine)
    out.cov["traces_validated_against_impl"] += res["stats"]["programs"]
    out.sample({"kind": "executed-program", "text": res["texts"][0]})
    out.sample({"kind": "executed-program", "text": res["texts"][len(res["texts"]) // 2]})
    return res["stats"]
