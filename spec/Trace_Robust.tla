---------------------------- MODULE Trace_Robust ----------------------------
(* impl -> spec (C06): linting is a total function.  The only accepted run   *)
(* of the library entry point is  start -> (diagnostics) -> end, recorded as *)
(* an `obs` event; a panic, a watchdog timeout or a crash of the process are *)
(* events no action of this specification matches.  For the rva binary the   *)
(* accepted outcome is exit status 0 within the time limit and no panic      *)
(* message.  Growth: the sweep counters of every pass stay within 4N+3 and   *)
(* the parse loop within one iteration per token plus one per file.          *)
EXTENDS Integers, Sequences, TLC, Json, IOUtils, PassOps
Rec == ndJsonDeserialize(IOEnv.TRACE)
VARIABLES l
vars == <<l>>

RECURSIVE SweepBad(_, _, _)
SweepBad(sw, n, i) ==
  IF i > Len(sw) THEN {}
  ELSE (IF sw[i].n > SweepLimit(n) THEN { "C06:sweeps-exceed-limit:" \o sw[i].pass } ELSE {}) \cup SweepBad(sw, n, i + 1)

Judge(e) ==
  CASE e.ev \in {"obs", "skipped"} -> {}
    [] e.ev = "stable"  -> SweepBad(e.sweeps, e.n, 1)
    [] e.ev = "panic"   -> { "C06:" \o e.class \o ":panic:" \o e.loc }
    [] e.ev = "timeout" -> { "C06:" \o e.class \o ":timeout" }
    [] e.ev = "crash"   -> { "C06:" \o e.class \o ":crash" }
    [] e.ev = "cli"     -> (IF e.timeout THEN { "C06:cli:" \o e.class \o ":timeout" } ELSE {})
                           \cup (IF ~e.timeout /\ e.rc # 0 THEN { "C06:cli:" \o e.class \o ":exit-status" } ELSE {})
                           \cup (IF e.panicked THEN { "C06:cli:" \o e.class \o ":panic" } ELSE {})
    [] OTHER -> { "C06:unknown-event" }

RECURSIVE ReportSet(_, _)
ReportSet(e, bad) ==
  IF bad = {} THEN TRUE
  ELSE LET k == CHOOSE x \in bad : TRUE IN
       PrintT("VERDICT " \o ToJson([id |-> e.id, key |-> k])) /\ ReportSet(e, bad \ {k})
Init == l = 1
Next == l <= Len(Rec) /\ ReportSet(Rec[l], Judge(Rec[l])) /\ l' = l + 1
Spec == Init /\ [][Next]_vars
Accepted == IF TLCGet("stats").diameter = Len(Rec) + 1 THEN TRUE
            ELSE PrintT("TRACE-NOT-CONSUMED") /\ FALSE
=============================================================================
