"""C05 — each kind of convention violation is reported where it occurs."""
import os
from vlib import *
from props.c04 import diags_of, generate

PID = "C05"


def run(tier, replay=None):
    out = Outcome(PID, tier)
    wd = os.path.join(WORK, PID)
    rvh = build_harness()
    cases, gres = generate("Gen_Conform_inj", 500 if tier == "quick" else 12000, "c05", out)
    out.add_tlc(gres)
    if replay:
        cases = [json.load(open(replay))["witness"]["case"]]
    # a program that includes d.s (a file of data definitions only) travels as a file tree
    hc = [dict({"id": i + 1, "mode": "observe", "want": ["nodes", "errors", "lints"]},
               **({"files": {"main.s": c["text"], "d.s": "val: .word 5\nbuf: .space 8\n"}, "base": "main.s"}
                  if '.include "d.s"' in c["text"] else {"text": c["text"]})) for i, c in enumerate(cases)]
    tp, hevs = run_harness_par(rvh, hc, wd, "inject")
    tr = [{"id": e["id"], "ev": e["ev"], "prop": "C05",
           "case": {"inj": c["inj"], "codes": c["codes"], "line": c["line"], "alt": c["alt"], "reg": c["reg"]},
           "diags": diags_of(e) if e["ev"] == "obs" else []} for e, c in zip(hevs, cases)]
    v, ress = validate_chunks("Trace_Diag", tr, wd, "diag.chunk", chunk=5000, heap="8g")
    for r in ress:
        out.add_tlc(r)
    for x in v:
        x["case"] = cases[x["id"] - 1]
        x["diags"] = tr[x["id"] - 1]["diags"]
    out.add_verdicts(v)
    from collections import Counter
    kinds = Counter(c["inj"] for c in cases)
    out.cov["traces_validated_against_impl"] = len(tr)
    out.sample({"inj": cases[0]["inj"], "fn": cases[0]["fn"], "expected": [cases[0]["codes"], cases[0]["line"], cases[0]["reg"]],
                "text": cases[0]["text"]})
    out.assumptions += [
        "each injector states the expected diagnostic kinds, line and register operand by construction, independently of the lints",
        "additional diagnostics are allowed (one violation may imply others)",
        "entering a function by fall-through: any of invalid-jump-to-function / node-in-many-functions / first-instruction-is-function on the entered function's first instruction counts",
    ]
    return out.finish(extra_cov={
        "injected_programs": len(cases), "per_kind": dict(kinds), "exhaustive": False,
        "evaluations": len(cases), "distinct_nontrivial": len(kinds),
        "rule": "tlc -simulate over Gen_Conform with WithInject: 18 injection kinds (saved/sp/ra not restored, a saved register given another saved register's value, an instruction in .data behind an include, temporary after call, never-assigned register, unused assignment, write to zero, stack access at / above entry sp, instruction in .data, unknown ecall, unreachable after ret / after jump, jump into function, fall-through into function, function first in program) x function x base program; distinct = kinds exercised",
    })
