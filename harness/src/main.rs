//! rvh — conformance harness binding the TLA+ specification to riscv_analysis.
//!
//! usage: rvh <cases.ndjson> <trace.ndjson> [--from K] [--timeout-ms T]
//!
//! Every input line is one case (a JSON object with at least `id` and `mode`),
//! every output line one event.  A panic or a timeout in the code under test is
//! *data*: it becomes an event, never a harness failure.
mod obs;
mod proj;
mod reader;

use serde_json::{json, Value};
use std::io::{BufRead, BufWriter, Write};
use std::sync::mpsc;
use std::sync::Mutex;
use std::time::{Duration, Instant};

static LAST_PANIC: Mutex<Option<(String, String)>> = Mutex::new(None);

fn install_hook() {
    std::panic::set_hook(Box::new(|info| {
        let msg = if let Some(s) = info.payload().downcast_ref::<&str>() {
            (*s).to_string()
        } else if let Some(s) = info.payload().downcast_ref::<String>() {
            s.clone()
        } else {
            "panic".to_string()
        };
        let loc = info
            .location()
            .map(|l| format!("{}:{}", l.file(), l.line()))
            .unwrap_or_default();
        *LAST_PANIC.lock().unwrap() = Some((msg, loc));
    }));
}

fn run_case(case: Value, timeout: Duration) -> (Value, bool) {
    let (tx, rx) = mpsc::channel();
    let c2 = case.clone();
    let h = std::thread::Builder::new()
        .stack_size(8 << 20)
        .spawn(move || {
            let r = std::panic::catch_unwind(std::panic::AssertUnwindSafe(|| obs::dispatch(&c2)));
            let v = match r {
                Ok(v) => v,
                Err(_) => {
                    let p = LAST_PANIC.lock().unwrap().take().unwrap_or_default();
                    let loc = p.1.replace("/repo/", "");
                    json!({"ev": "panic", "msg": p.0, "loc": loc})
                }
            };
            let _ = tx.send(v);
        })
        .expect("spawn");
    match rx.recv_timeout(timeout) {
        Ok(mut v) => {
            let _ = h.join();
            if let Some(o) = v.as_object_mut() {
                o.insert("id".into(), case["id"].clone());
                o.insert("mode".into(), case["mode"].clone());
                if !o.contains_key("ev") {
                    o.insert("ev".into(), json!("obs"));
                }
            }
            (v, false)
        }
        Err(_) => (
            json!({"ev": "timeout", "id": case["id"], "mode": case["mode"]}),
            true,
        ),
    }
}

fn main() {
    let args: Vec<String> = std::env::args().collect();
    if args.len() < 3 {
        eprintln!("usage: rvh <cases.ndjson> <trace.ndjson> [--from K] [--timeout-ms T]");
        std::process::exit(2);
    }
    let mut from = 0usize;
    let mut timeout = 10_000u64;
    let mut append = false;
    // the library keeps its graphs alive (reference cycles): a long-lived process grows by
    // megabytes per analysis, so the driver gets control back every `max_cases` cases (exit 4)
    let mut max_cases = 250usize;
    let mut i = 3;
    while i < args.len() {
        match args[i].as_str() {
            "--from" => {
                from = args[i + 1].parse().unwrap();
                i += 1;
            }
            "--timeout-ms" => {
                timeout = args[i + 1].parse().unwrap();
                i += 1;
            }
            "--append" => append = true,
            "--max-cases" => {
                max_cases = args[i + 1].parse().unwrap();
                i += 1;
            }
            _ => {}
        }
        i += 1;
    }
    install_hook();
    let inp = std::io::BufReader::new(std::fs::File::open(&args[1]).expect("open cases"));
    let outf = std::fs::OpenOptions::new()
        .create(true)
        .write(true)
        .append(append)
        .truncate(!append)
        .open(&args[2])
        .expect("open trace");
    let mut out = BufWriter::new(outf);
    let t0 = Instant::now();
    let mut n = 0usize;
    for (k, line) in inp.lines().enumerate() {
        let line = line.expect("read");
        if k < from || line.trim().is_empty() {
            continue;
        }
        let case: Value = serde_json::from_str(&line).expect("case json");
        // progress marker so that the driver can attribute a hard crash
        // (stack overflow, abort) to the right case
        std::fs::write(format!("{}.cur", &args[2]), format!("{k}")).ok();
        let (ev, timed_out) = run_case(case, Duration::from_millis(timeout));
        serde_json::to_writer(&mut out, &ev).unwrap();
        out.write_all(b"\n").unwrap();
        n += 1;
        if timed_out {
            out.flush().unwrap();
            std::process::exit(3);
        }
        // every event is on disk before the next case starts: a hard crash
        // (stack overflow, abort) must not lose the events before it
        out.flush().unwrap();
        if n >= max_cases {
            std::fs::remove_file(format!("{}.cur", &args[2])).ok();
            std::process::exit(4);
        }
    }
    out.flush().unwrap();
    std::fs::remove_file(format!("{}.cur", &args[2])).ok();
    eprintln!("rvh: {} cases in {:.2}s", n, t0.elapsed().as_secs_f64());
}
