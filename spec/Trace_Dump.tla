----------------------------- MODULE Trace_Dump -----------------------------
(* impl -> spec (C19): the dump encoding is a faithful, reloadable           *)
(* serialization: every value / memory location reloads as itself, different *)
(* values have different text, every program dump reloads equal to what was  *)
(* written, and results that differ in an edge, live set, fact or function   *)
(* annotation have different dumps.                                          *)
EXTENDS Integers, Sequences, TLC, Json, IOUtils
Rec == ndJsonDeserialize(IOEnv.TRACE)
VARIABLES l
vars == <<l>>
RECURSIVE Cat(_, _, _)
Cat(f(_), n, i) == IF i > n THEN <<>> ELSE f(i) \o Cat(f, n, i + 1)

JudgeBatch(items, what, same(_, _)) ==
  LET one(i) ==
        LET x == items[i] IN
        IF ~x.ok THEN << "C19:" \o what \o ":" \o x.v.t \o ":panic" >>
        ELSE IF ~x.rt \/ ~same(x.back, x.v)
          THEN << "C19:" \o what \o ":" \o x.v.t \o ":does-not-reload-as-itself" >> ELSE <<>>
      clash(i) ==
        LET js == { j \in (i + 1)..Len(items) : items[j].ok /\ items[i].ok /\ items[j].yaml = items[i].yaml /\ items[j].v # items[i].v } IN
        IF js = {} THEN <<>>
        ELSE << "C19:" \o what \o ":" \o items[i].v.t \o "-and-" \o items[CHOOSE j \in js : TRUE].v.t \o ":same-text" >>
  IN Cat(one, Len(items), 1) \o Cat(clash, Len(items), 1)

\* the dump, decoded by a generic YAML reader, says about every node what the analysis result says:
\* same successors, predecessors, live sets, u_def, and the same (entry, exit) pair for every owning function
ToSet(q) == { q[i] : i \in 1..Len(q) }
Faithful(e) ==
  IF Len(e.dump) # Len(e.mem) THEN << "C19:program:dump-has-a-different-number-of-nodes" >>
  ELSE LET bad(f) == \E i \in 1..Len(e.mem) : ToSet(e.dump[i][f]) # ToSet(e.mem[i][f])
           pairs(d) == IF Len(d.func_entry) # Len(d.func_exit) THEN {<<-1, -1>>}
                       ELSE { <<d.func_entry[k], d.func_exit[k]>> : k \in 1..Len(d.func_entry) }
           badf == \E i \in 1..Len(e.mem) : pairs(e.dump[i]) # { <<p[1], p[2]>> : p \in ToSet(e.mem[i].fpairs) }
       IN (IF bad("nexts") \/ bad("prevs") THEN << "C19:program:dump-states-other-edges" >> ELSE <<>>)
          \o (IF bad("live_in") \/ bad("live_out") \/ bad("u_def") THEN << "C19:program:dump-states-other-register-sets" >> ELSE <<>>)
          \o (IF badf THEN << "C19:program:dump-states-other-function-entry-exit-pairs" >> ELSE <<>>)
SameV(a, b) == DOMAIN a = DOMAIN b /\ a = b
Judge(e) ==
  CASE e.ev = "yamlval" ->
         JudgeBatch(e.values, "value", SameV) \o JudgeBatch(e.locs, "location", SameV)
         \o JudgeBatch(e.sets, "register-set", SameV)
    [] e.ev = "obs" ->
         IF ~e.cfgok THEN <<>>
         ELSE IF ~e.yaml_rt THEN << "C19:program:dump-does-not-reload-equal" >> ELSE <<>>
    [] e.ev = "faithful" -> Faithful(e)
    [] e.ev = "samedump" ->
         IF e.a # e.b THEN << "C19:program:different-results-same-dump:" \o e.what >> ELSE <<>>
    [] OTHER -> <<>>

RECURSIVE Dedup(_, _, _)
Dedup(s, i, seen) == IF i > Len(s) THEN <<>>
                     ELSE IF s[i] \in seen THEN Dedup(s, i + 1, seen) ELSE <<s[i]>> \o Dedup(s, i + 1, seen \cup {s[i]})
RECURSIVE Report(_, _, _)
Report(e, bad, i) ==
  IF i > Len(bad) THEN TRUE
  ELSE PrintT("VERDICT " \o ToJson([id |-> e.id, key |-> bad[i]])) /\ Report(e, bad, i + 1)
Init == l = 1
Next == l <= Len(Rec) /\ Report(Rec[l], Dedup(Judge(Rec[l]), 1, {}), 1) /\ l' = l + 1
Spec == Init /\ [][Next]_vars
Accepted == IF TLCGet("stats").diameter = Len(Rec) + 1 THEN TRUE
            ELSE PrintT("TRACE-NOT-CONSUMED") /\ FALSE
=============================================================================
